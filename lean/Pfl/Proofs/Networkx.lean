/-
Helper lemmas for C20 (`to_networkx` / `from_networkx` round trip): graph primitives, the state pass
invariant, the transition pass.
-/
import Pfl.Model.Networkx

namespace Pfl.Nx

/-- a graph in the format written before the attribute `initial_stack` existed: the same graph without
that attribute on any node -/
def Graph.eraseStack {L : Type} (g : Graph L) : Graph L :=
  { g with nodes := g.nodes.map fun e => (e.1, { e.2 with initialStack := none }) }

end Pfl.Nx

namespace Pfl.Nx.Lem
open Pfl.Nx
variable {L : Type}

/-! ### primitives -/

theorem hasNode_iff (g : Graph L) (n : Val) : g.hasNode n = true ↔ ∃ a, (n, a) ∈ g.nodes := by
  unfold Graph.hasNode
  rw [List.any_eq_true]
  constructor
  · rintro ⟨⟨m, a⟩, hm, h⟩
    have : m = n := by simpa using h
    subst this
    exact ⟨a, hm⟩
  · rintro ⟨a, ha⟩
    exact ⟨(n, a), ha, by simp⟩

theorem addNode_edges (g : Graph L) (n : Val) (a : Attrs) : (g.addNode n a).edges = g.edges := by
  unfold Graph.addNode
  split <;> rfl

theorem mem_addNode {g : Graph L} {n : Val} {a : Attrs} {m : Val} {b : Attrs}
    (h : (m, b) ∈ (g.addNode n a).nodes) :
    (m ≠ n ∧ (m, b) ∈ g.nodes) ∨
    (m = n ∧ ((∃ b0, (n, b0) ∈ g.nodes ∧ b = b0.update a) ∨ (g.hasNode n = false ∧ b = a))) := by
  unfold Graph.addNode at h
  split at h
  · simp only [List.mem_map] at h
    obtain ⟨⟨m0, b0⟩, hm0, he⟩ := h
    by_cases hmn : m0 = n
    · subst hmn
      simp at he
      right
      exact ⟨he.1.symm, Or.inl ⟨b0, hm0, he.2.symm⟩⟩
    · simp [hmn] at he
      left
      obtain ⟨rfl, rfl⟩ := he
      exact ⟨hmn, hm0⟩
  · rename_i hn
    simp only [List.mem_append, List.mem_singleton, Prod.mk.injEq] at h
    rcases h with h | ⟨rfl, rfl⟩
    · left
      refine ⟨?_, h⟩
      rintro rfl
      exact hn ((hasNode_iff g m).2 ⟨b, h⟩)
    · right
      exact ⟨rfl, Or.inr ⟨by simpa using hn, rfl⟩⟩

theorem hasNode_addNode (g : Graph L) (n : Val) (a : Attrs) (m : Val) :
    (g.addNode n a).hasNode m = true ↔ g.hasNode m = true ∨ m = n := by
  unfold Graph.addNode
  split
  · rename_i hn
    have : ({ g with nodes := g.nodes.map fun e => if e.1 = n then (e.1, e.2.update a) else e } : Graph L).hasNode m
        = g.hasNode m := by
      unfold Graph.hasNode
      simp only [List.any_map]
      congr 1
      funext e
      simp only [Function.comp]
      split <;> rfl
    rw [this]
    constructor
    · exact Or.inl
    · rintro (h | rfl)
      · exact h
      · exact hn
  · unfold Graph.hasNode
    simp only [List.any_append, List.any_cons, List.any_nil, Bool.or_false, Bool.or_eq_true,
      decide_eq_true_eq]
    constructor
    · rintro (h | h)
      · exact Or.inl h
      · exact Or.inr h.symm
    · rintro (h | h)
      · exact Or.inl h
      · exact Or.inr h.symm

/-- `addEdge` when both endpoints are nodes already -/
theorem addEdge_of_hasNode (g : Graph L) (u v : Val) (l : Option L)
    (hu : g.hasNode u = true) (hv : g.hasNode v = true) :
    g.addEdge u v l = { nodes := g.nodes, edges := g.edges ++ [(u, v, l)] } := by
  unfold Graph.addEdge
  simp [hu, hv]

/-! ### the state pass -/

/-- the step of the three state folds -/
def stateStep (sflag fflag : Val → Bool) (g : Graph L) (q : Val) : Graph L :=
  let g1 := g.addNode q { isStart := some (sflag q), isFinal := some (fflag q), label := some q }
  if sflag q then addMarker g1 q else g1

structure Inv (sflag fflag : Val → Bool) (qs : List Val) (g : Graph L) : Prop where
  edges : ∀ e ∈ g.edges, e.2.2 = none
  attrsIn : ∀ n a, (n, a) ∈ g.nodes → n ∈ qs → a.isStart = some (sflag n) ∧ a.isFinal = some (fflag n)
  attrsOut : ∀ n a, (n, a) ∈ g.nodes → n ∉ qs → a.isStart = none ∧ a.isFinal = none
  nodes : ∀ q ∈ qs, g.hasNode q = true

def Names (qs : List Val) (g : Graph L) : Prop :=
  ∀ n, g.hasNode n = true → n ∈ qs ∨ ∃ v, n = marker v

variable {sflag fflag : Val → Bool}

theorem Inv.congr {qs qs' : List Val} {g : Graph L} (h : Inv sflag fflag qs g) (e : ∀ n, n ∈ qs ↔ n ∈ qs') :
    Inv sflag fflag qs' g :=
  ⟨h.edges, fun n a hn hq => h.attrsIn n a hn ((e n).2 hq),
   fun n a hn hq => h.attrsOut n a hn (fun c => hq ((e n).1 c)), fun q hq => h.nodes q ((e q).2 hq)⟩

theorem Names.congr {qs qs' : List Val} {g : Graph L} (h : Names qs g) (e : ∀ n, n ∈ qs ↔ n ∈ qs') :
    Names qs' g := fun n hn => (h n hn).imp (e n).1 id

theorem Inv.addState {qs : List Val} {g : Graph L} (h : Inv sflag fflag qs g) (q : Val) :
    Inv sflag fflag (q :: qs)
      (g.addNode q { isStart := some (sflag q), isFinal := some (fflag q), label := some q }) := by
  refine ⟨?_, ?_, ?_, ?_⟩
  · rw [addNode_edges]; exact h.edges
  · intro n a hn hq
    rcases mem_addNode hn with ⟨hne, hm⟩ | ⟨rfl, hb | hb⟩
    · exact h.attrsIn n a hm (by simpa [hne] using hq)
    · obtain ⟨b0, _, rfl⟩ := hb
      simp [Attrs.update]
    · obtain ⟨_, rfl⟩ := hb
      simp
  · intro n a hn hq
    rcases mem_addNode hn with ⟨hne, hm⟩ | ⟨rfl, _⟩
    · exact h.attrsOut n a hm (fun c => hq (List.mem_cons_of_mem _ c))
    · exact absurd (List.mem_cons_self) hq
  · intro n hn
    rw [hasNode_addNode]
    rcases List.mem_cons.1 hn with rfl | hn
    · exact Or.inr rfl
    · exact Or.inl (h.nodes n hn)

/-- a node update that sets neither `is_start` nor `is_final` -/
theorem Inv.addDeco {qs : List Val} {g : Graph L} (h : Inv sflag fflag qs g) (n : Val) (d : Attrs)
    (hs : d.isStart = none) (hf : d.isFinal = none) :
    Inv sflag fflag qs (g.addNode n d) := by
  refine ⟨?_, ?_, ?_, ?_⟩
  · rw [addNode_edges]; exact h.edges
  · intro m a hm hq
    rcases mem_addNode hm with ⟨hne, hm⟩ | ⟨rfl, hb | hb⟩
    · exact h.attrsIn m a hm hq
    · obtain ⟨b0, hb0, rfl⟩ := hb
      simpa [Attrs.update, hs, hf] using h.attrsIn m b0 hb0 hq
    · have := h.nodes m hq
      rw [hb.1] at this
      cases this
  · intro m a hm hq
    rcases mem_addNode hm with ⟨hne, hm⟩ | ⟨rfl, hb | hb⟩
    · exact h.attrsOut m a hm hq
    · obtain ⟨b0, hb0, rfl⟩ := hb
      simpa [Attrs.update, hs, hf] using h.attrsOut m b0 hb0 hq
    · obtain ⟨_, rfl⟩ := hb
      exact ⟨hs, hf⟩
  · intro q hq
    rw [hasNode_addNode]
    exact Or.inl (h.nodes q hq)

theorem Inv.addLabel {qs : List Val} {g : Graph L} (h : Inv sflag fflag qs g) (n : Val) (x : Val) :
    Inv sflag fflag qs (g.addNode n { label := some x }) :=
  h.addDeco n _ rfl rfl

theorem Inv.addEdgeNone {qs : List Val} {g : Graph L} (h : Inv sflag fflag qs g) (u v : Val)
    (hu : g.hasNode u = true) (hv : g.hasNode v = true) :
    Inv sflag fflag qs (g.addEdge u v none) := by
  rw [addEdge_of_hasNode g u v none hu hv]
  refine ⟨?_, h.attrsIn, h.attrsOut, h.nodes⟩
  intro e he
  simp only [List.mem_append, List.mem_singleton] at he
  rcases he with he | rfl
  · exact h.edges e he
  · rfl

theorem Inv.step {qs : List Val} {g : Graph L} (h : Inv sflag fflag qs g) (q : Val) :
    Inv sflag fflag (q :: qs) (stateStep sflag fflag g q) := by
  unfold stateStep
  have h1 := h.addState q
  simp only
  split
  · unfold addMarker
    apply Inv.addEdgeNone ((h1.addLabel (marker q) (.str "")))
    · rw [hasNode_addNode]; exact Or.inr rfl
    · rw [hasNode_addNode]; exact Or.inl (h1.nodes q List.mem_cons_self)
  · exact h1

theorem Names.step {qs : List Val} {g : Graph L} (h : Names qs g) (q : Val) :
    Names (q :: qs) (stateStep sflag fflag g q) := by
  have h1 : Names (q :: qs)
      (g.addNode q { isStart := some (sflag q), isFinal := some (fflag q), label := some q }) := by
    intro n hn
    rw [hasNode_addNode] at hn
    rcases hn with hn | rfl
    · exact (h n hn).imp (List.mem_cons_of_mem _) id
    · exact Or.inl List.mem_cons_self
  unfold stateStep
  simp only
  split
  · unfold addMarker
    intro n hn
    rw [addEdge_of_hasNode] at hn
    · change Graph.hasNode ⟨_, _⟩ n = true at hn
      have hn' : (Graph.addNode (g.addNode q { isStart := some (sflag q), isFinal := some (fflag q), label := some q })
          (marker q) { label := some (.str "") }).hasNode n = true := hn
      rw [hasNode_addNode] at hn'
      rcases hn' with hn' | rfl
      · exact h1 n hn'
      · exact Or.inr ⟨q, rfl⟩
    · rw [hasNode_addNode]; exact Or.inr rfl
    · rw [hasNode_addNode, hasNode_addNode]; exact Or.inl (Or.inr rfl)
  · exact h1

theorem inv_empty : Inv sflag fflag [] ({} : Graph L) :=
  ⟨fun _ he => (List.not_mem_nil he).elim, fun _ _ hn => (List.not_mem_nil hn).elim,
   fun _ _ hn => (List.not_mem_nil hn).elim, fun _ hq => (List.not_mem_nil hq).elim⟩

theorem names_empty : Names [] ({} : Graph L) := by
  intro n hn
  simp [Graph.hasNode] at hn

theorem inv_foldl (l : List Val) : ∀ (qs : List Val) (g : Graph L), Inv sflag fflag qs g →
    Inv sflag fflag (l.reverse ++ qs) (l.foldl (stateStep sflag fflag) g) := by
  induction l with
  | nil => intro qs g h; simpa using h
  | cons q l ih =>
    intro qs g h
    have := ih (q :: qs) _ (h.step q)
    simpa using this

theorem names_foldl (l : List Val) : ∀ (qs : List Val) (g : Graph L), Names qs g →
    Names (l.reverse ++ qs) (l.foldl (stateStep sflag fflag) g) := by
  induction l with
  | nil => intro qs g h; simpa using h
  | cons q l ih =>
    intro qs g h
    have := ih (q :: qs) _ (h.step (sflag := sflag) (fflag := fflag) q)
    simpa using this

theorem inv_statePass (l : List Val) :
    Inv sflag fflag l (l.foldl (stateStep sflag fflag) ({} : Graph L)) :=
  (inv_foldl l [] _ inv_empty).congr (by simp)

theorem names_statePass (l : List Val) :
    Names l (l.foldl (stateStep sflag fflag) ({} : Graph L)) :=
  (names_foldl l [] _ names_empty).congr (by simp)

/-! ### the transition pass -/

theorem foldl_addEdge {T : Type} (src tgt : T → Val) (lab : T → Option L) (ts : List T) :
    ∀ (g : Graph L), (∀ t ∈ ts, g.hasNode (src t) = true ∧ g.hasNode (tgt t) = true) →
    ts.foldl (fun g t => g.addEdge (src t) (tgt t) (lab t)) g =
      { nodes := g.nodes, edges := g.edges ++ ts.map fun t => (src t, tgt t, lab t) } := by
  induction ts with
  | nil => intro g _; simp
  | cons t ts ih =>
    intro g h
    have ht := h t List.mem_cons_self
    rw [List.foldl_cons, addEdge_of_hasNode g _ _ _ ht.1 ht.2, ih]
    · simp
    · intro t' ht'
      exact h t' (List.mem_cons_of_mem _ ht')

theorem filterMap_labelled {T β : Type} (F : Val × Val × Option L → L → β)
    (es : List (Val × Val × Option L)) (hes : ∀ e ∈ es, e.2.2 = none)
    (src tgt : T → Val) (lab : T → L) (ts : List T) :
    (es ++ ts.map fun t => (src t, tgt t, some (lab t))).filterMap (fun e => e.2.2.map (F e)) =
      ts.map fun t => F (src t, tgt t, some (lab t)) (lab t) := by
  rw [List.filterMap_append]
  have h1 : es.filterMap (fun e => e.2.2.map (F e)) = [] := by
    rw [List.filterMap_eq_nil_iff]
    intro e he
    rw [hes e he]; rfl
  rw [h1, List.nil_append, List.filterMap_map]
  induction ts with
  | nil => rfl
  | cons t ts ih => simp [ih]

theorem allSome_map_some {α : Type} (l : List α) : allSome (l.map some) = some l := by
  induction l with
  | nil => rfl
  | cons a l ih => simp [allSome, ih]

/-! ### reading the nodes back -/

theorem Inv.mem_stateNodes {qs : List Val} {g : Graph L} (h : Inv sflag fflag qs g) (q : Val) :
    q ∈ (g.nodes.filter fun n => n.2.isFinal.isSome).map (·.1) ↔ q ∈ qs := by
  simp only [List.mem_map, List.mem_filter]
  constructor
  · rintro ⟨⟨n, a⟩, ⟨hn, hs⟩, rfl⟩
    by_cases hq : n ∈ qs
    · exact hq
    · have := (h.attrsOut n a hn hq).2
      simp [this] at hs
  · intro hq
    obtain ⟨a, ha⟩ := (hasNode_iff g q).1 (h.nodes q hq)
    exact ⟨(q, a), ⟨ha, by simp [(h.attrsIn q a ha hq).2]⟩, rfl⟩

theorem Inv.mem_starts {qs : List Val} {g : Graph L} (h : Inv sflag fflag qs g) (q : Val) :
    q ∈ (g.nodes.filter fun n => n.2.isStart.getD false).map (·.1) ↔ q ∈ qs ∧ sflag q = true := by
  simp only [List.mem_map, List.mem_filter]
  constructor
  · rintro ⟨⟨n, a⟩, ⟨hn, hs⟩, rfl⟩
    by_cases hq : n ∈ qs
    · refine ⟨hq, ?_⟩
      simpa [(h.attrsIn n a hn hq).1] using hs
    · simp [(h.attrsOut n a hn hq).1] at hs
  · rintro ⟨hq, hs⟩
    obtain ⟨a, ha⟩ := (hasNode_iff g q).1 (h.nodes q hq)
    exact ⟨(q, a), ⟨ha, by simp [(h.attrsIn q a ha hq).1, hs]⟩, rfl⟩

theorem Inv.mem_finals {qs : List Val} {g : Graph L} (h : Inv sflag fflag qs g) (q : Val) :
    q ∈ (g.nodes.filter fun n => n.2.isFinal.getD false).map (·.1) ↔ q ∈ qs ∧ fflag q = true := by
  simp only [List.mem_map, List.mem_filter]
  constructor
  · rintro ⟨⟨n, a⟩, ⟨hn, hs⟩, rfl⟩
    by_cases hq : n ∈ qs
    · refine ⟨hq, ?_⟩
      simpa [(h.attrsIn n a hn hq).2] using hs
    · simp [(h.attrsOut n a hn hq).2] at hs
  · rintro ⟨hq, hs⟩
    obtain ⟨a, ha⟩ := (hasNode_iff g q).1 (h.nodes q hq)
    exact ⟨(q, a), ⟨ha, by simp [(h.attrsIn q a ha hq).2, hs]⟩, rfl⟩

/-- all elements equal to `q`, and `q` present: the last element is `q` -/
theorem getLast?_of_all_eq {α : Type} {l : List α} {q : α} (hall : ∀ x ∈ l, x = q) (hq : q ∈ l) :
    l.getLast? = some q := by
  cases h : l.getLast? with
  | none =>
    rw [List.getLast?_eq_none_iff] at h
    subst h; cases hq
  | some x => rw [hall x (List.mem_of_getLast? h)]

/-! ### names -/

theorem marker_ne_hidden (v : Val) : marker v ≠ hiddenStack := by
  intro h
  unfold marker hiddenStack at h
  have h' := congrArg String.toList (Val.str.inj h)
  simp at h'

/-- the label of a node after `addNode` with a label -/
theorem label_addNode {g : Graph L} {n : Val} {x : Val} {b : Attrs}
    (h : (n, b) ∈ (g.addNode n { label := some x }).nodes) : b.label = some x := by
  rcases mem_addNode h with ⟨hne, _⟩ | ⟨_, ⟨b0, _, rfl⟩ | ⟨_, rfl⟩⟩
  · exact absurd rfl hne
  · simp [Attrs.update]
  · rfl

theorem attrs_mem {g : Graph L} {n : Val} (h : g.hasNode n = true) : (n, g.attrs n) ∈ g.nodes := by
  obtain ⟨a, ha⟩ := (hasNode_iff g n).1 h
  unfold Graph.attrs
  cases hf : g.nodes.find? (·.1 = n) with
  | none =>
    rw [List.find?_eq_none] at hf
    exact absurd (by simp) (hf _ ha)
  | some e =>
    have h1 := List.find?_some hf
    have h2 := List.mem_of_find?_eq_some hf
    obtain ⟨m, b⟩ := e
    have : m = n := by simpa using h1
    subst this
    simpa using h2

/-! ### the attribute `initial_stack` -/

/-- no node carries `initial_stack`: state nodes and markers never set it -/
def NoStack (g : Graph L) : Prop := ∀ n a, (n, a) ∈ g.nodes → a.initialStack = none

theorem NoStack.addNode {g : Graph L} (h : NoStack g) (n : Val) (d : Attrs) (hd : d.initialStack = none) :
    NoStack (g.addNode n d) := by
  intro m a hm
  rcases mem_addNode hm with ⟨_, hm⟩ | ⟨rfl, ⟨b0, hb0, rfl⟩ | ⟨_, rfl⟩⟩
  · exact h m a hm
  · simpa [Attrs.update, hd] using h m b0 hb0
  · exact hd

theorem NoStack.step {g : Graph L} (h : NoStack g) (q : Val) : NoStack (stateStep sflag fflag g q) := by
  have h1 : NoStack (g.addNode q { isStart := some (sflag q), isFinal := some (fflag q), label := some q }) :=
    h.addNode q _ rfl
  unfold stateStep
  simp only
  split
  · unfold addMarker
    rw [addEdge_of_hasNode]
    · exact h1.addNode (marker q) _ rfl
    · rw [hasNode_addNode]; exact Or.inr rfl
    · rw [hasNode_addNode, hasNode_addNode]; exact Or.inl (Or.inr rfl)
  · exact h1

theorem noStack_foldl (l : List Val) : ∀ (g : Graph L), NoStack g →
    NoStack (l.foldl (stateStep sflag fflag) g) := by
  induction l with
  | nil => intro g h; exact h
  | cons q l ih => intro g h; exact ih _ (h.step q)

theorem noStack_statePass (l : List Val) :
    NoStack (l.foldl (stateStep sflag fflag) ({} : Graph L)) :=
  noStack_foldl l _ (fun _ _ hn => (List.not_mem_nil hn).elim)

/-- the keys set by `addNode` on the node itself -/
theorem set_addNode {g : Graph L} {n : Val} {d b : Attrs} (h : (n, b) ∈ (g.addNode n d).nodes) :
    (∀ x, d.label = some x → b.label = some x) ∧
    (∀ x, d.initialStack = some x → b.initialStack = some x) := by
  rcases mem_addNode h with ⟨hne, _⟩ | ⟨_, ⟨b0, _, rfl⟩ | ⟨_, rfl⟩⟩
  · exact absurd rfl hne
  · constructor <;> intro x hx <;> simp [Attrs.update, hx]
  · exact ⟨fun _ hx => hx, fun _ hx => hx⟩

/-! ### erasing `initial_stack` -/

theorem eraseStack_edges (g : Graph L) : g.eraseStack.edges = g.edges := rfl

theorem hasNode_eraseStack (g : Graph L) (n : Val) : g.eraseStack.hasNode n = g.hasNode n := by
  simp only [Graph.hasNode, Graph.eraseStack, List.any_map]
  rfl

theorem mem_eraseStack {g : Graph L} {n : Val} {b : Attrs} :
    (n, b) ∈ g.eraseStack.nodes ↔ ∃ a, (n, a) ∈ g.nodes ∧ b = { a with initialStack := none } := by
  simp only [Graph.eraseStack, List.mem_map, Prod.mk.injEq]
  constructor
  · rintro ⟨⟨m, a⟩, hm, rfl, rfl⟩
    exact ⟨a, hm, rfl⟩
  · rintro ⟨a, ha, rfl⟩
    exact ⟨(n, a), ha, rfl, rfl⟩

theorem Inv.eraseStack {qs : List Val} {g : Graph L} (h : Inv sflag fflag qs g) :
    Inv sflag fflag qs g.eraseStack := by
  refine ⟨h.edges, ?_, ?_, ?_⟩
  · intro n b hb hq
    obtain ⟨a, ha, rfl⟩ := mem_eraseStack.1 hb
    exact h.attrsIn n a ha hq
  · intro n b hb hq
    obtain ⟨a, ha, rfl⟩ := mem_eraseStack.1 hb
    exact h.attrsOut n a ha hq
  · intro q hq
    rw [hasNode_eraseStack]
    exact h.nodes q hq

theorem noStack_eraseStack (g : Graph L) : NoStack g.eraseStack := by
  intro n b hb
  obtain ⟨a, _, rfl⟩ := mem_eraseStack.1 hb
  rfl

/-! ### the start stack symbol read by `PDA.from_networkx` -/

/-- the start stack symbol `PDA.from_networkx` reads from the nodes (`none` = an exception) -/
def readStack (J : Json) (g : Graph (List Char)) : Option (Option Val) :=
  if g.hasNode hiddenStack then
    match (g.attrs hiddenStack).initialStack with
    | some txt => (J.loads txt).map some
    | none =>
      if (g.attrs hiddenStack).isFinal.isSome then some none else
      match (g.attrs hiddenStack).label with
      | some (.str txt) => (J.loads txt.toList).map some
      | some (.int _) => none
      | none => none
  else some none

theorem readStack_absent (J : Json) {g : Graph (List Char)} (h : g.hasNode hiddenStack = false) :
    readStack J g = some none := by
  simp [readStack, h]

/-- the attribute is there: it is read -/
theorem readStack_attr (J : Json) {g : Graph (List Char)} {txt : List Char}
    (h : ∀ b, (hiddenStack, b) ∈ g.nodes → b.initialStack = some txt) (hn : g.hasNode hiddenStack = true) :
    readStack J g = (J.loads txt).map some := by
  simp [readStack, hn, h _ (attrs_mem hn)]

/-- no attribute, and the node is a state: no start stack symbol -/
theorem readStack_state (J : Json) {g : Graph (List Char)}
    (h : ∀ b, (hiddenStack, b) ∈ g.nodes → b.initialStack = none ∧ b.isFinal.isSome = true) :
    readStack J g = some none := by
  cases hn : g.hasNode hiddenStack with
  | false => exact readStack_absent J hn
  | true =>
    have := h _ (attrs_mem hn)
    simp [readStack, hn, this.1, this.2]

/-- no attribute, the node is a decoration: its label is read (old format) -/
theorem readStack_label (J : Json) {g : Graph (List Char)} {txt : String}
    (h : ∀ b, (hiddenStack, b) ∈ g.nodes → b.initialStack = none ∧ b.isFinal = none ∧ b.label = some (.str txt))
    (hn : g.hasNode hiddenStack = true) :
    readStack J g = (J.loads txt.toList).map some := by
  have := h _ (attrs_mem hn)
  simp [readStack, hn, this.1, this.2.1, this.2.2]

end Pfl.Nx.Lem
