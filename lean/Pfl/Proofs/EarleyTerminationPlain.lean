/-
Termination of the Earley model (C18), part 5: feature-free grammars.  All symbol records are
empty, a unification only links two empty records, the symbol records of a state's record coincide
exactly as those of its production do; hence all states under one key have the same pattern and
at most one of them is accepted: a column has at most `(|spec|+1)·(|w|+1)·(L+1)` processed states.
-/
import Pfl.Proofs.EarleyTerminationOps
import Pfl.Proofs.EarleyCompleteBuild
namespace Pfl
namespace Earley
namespace Term
open FsDag FsDag.Lem Lem Cmp

/-! ### the unification of two empty records -/

theorem unify_plain {st : Store} {a b : Nat} (f : Nat) (hne : deref st a ≠ deref st b)
    (ha : cont st (deref st a) = []) (hb : cont st (deref st b) = [])
    (hv : val st (deref st a) = val st (deref st b)) :
    unify (f + 1) st a b = .ok (setPointer st (deref st a) (deref st b)) := by
  rw [unify_succ, if_neg hne, if_pos ⟨ha, hb⟩, if_pos hv]

/-! ### stores in which every feature leads to an object without features -/

def PlainSt (st : Store) : Prop := ∀ i g x, (g, x) ∈ cont st i → cont st (deref st x) = []

theorem plain_copy {st : Store} {F : Nat} {st1 : Store} {F' : Nat} {κ : Nat → Nat}
    {dom : Nat → Prop} {π : Nat → Nat} (hc : CopySpec st F st1 F' κ dom π) (hr : Rng st)
    (ha : Acyc st) (hp : PlainSt st) : PlainSt st1 := by
  intro n g x hx
  rcases hc.cases n with ⟨h1, h2⟩ | ⟨h1, h2, h3, h4⟩ | ⟨h1, _⟩
  · rw [cont, h2] at hx
    have hxl : x < st.length := hr.c n g x hx
    rw [hc.deref_old hr ha hxl, cont, hc.old (deref_lt hr hxl)]
    exact hp n g x hx
  · have hnode := hc.node _ h3
    rw [h4] at hnode
    rw [cont, hnode] at hx
    simp only [List.mem_map, Prod.mk.injEq] at hx
    obtain ⟨e, he, _, rfl⟩ := hx
    have hde := hc.dom_cont _ e.1 e.2 h3 he
    obtain ⟨hd, hdd⟩ := hc.deref_κ hr ha e.2 hde
    rw [hd, cont, hc.node _ hdd]
    show (cont st (deref st e.2)).map (fun e => (e.1, κ e.2)) = []
    rw [hp _ e.1 e.2 he]; rfl
  · rw [cont, get_ge h1] at hx; simp [emptyNode] at hx

theorem plain_setPointer {st : Store} (ha : Acyc st) (hp : PlainSt st) {c d : Nat}
    (hc : ptr st c = none) (hd : ptr st d = none) (hcd : c ≠ d) (hlt : c < st.length)
    (hdc : cont st d = []) : PlainSt (setPointer st c d) := by
  intro i g x hx
  rw [cont_setPointer] at hx ⊢
  rw [deref_setPointer ha hc hd hcd hlt]
  split
  · exact hdc
  · exact hp i g x hx

theorem leafOf_none_plain {st : Store} (hp : PlainSt st) (F j : Nat) : leafOf st F j = none := by
  cases h : leafOf st F j with
  | none => rfl
  | some u =>
    obtain ⟨c, x, hc, hx, _⟩ := leafOf_some h
    rw [hp _ _ _ (lookupC_mem hc)] at hx
    simp [lookupC] at hx

/-! ### the symbol records of a state coincide as those of its production -/

def TS (st : Store) (L F P : Nat) : Prop :=
  ∀ i j, i ≤ L → j ≤ L → ((∃ c, slotOf st F i = some c ∧ slotOf st F j = some c) ↔
    (∃ c, slotOf st P i = some c ∧ slotOf st P j = some c))

theorem TS.refl (st : Store) (L P : Nat) : TS st L P P := fun _ _ _ _ => Iff.rfl

theorem TS.fr {st st' : Store} (hf : Fr st st') (ha : Acyc st) (hr : Rng st) {L F P : Nat}
    (hF : F < st.length) (hP : P < st.length) (h : TS st L F P) : TS st' L F P := by
  intro i j hi hj
  rw [slotOf_fr hf ha hr hF, slotOf_fr hf ha hr hF, slotOf_fr hf ha hr hP, slotOf_fr hf ha hr hP]
  exact h i j hi hj

theorem pat_plain {vals : List String} {L : Nat} {st : Store} (hp : PlainSt st) {a b P : Nat}
    (ha : TS st L a P) (hb : TS st L b P) : pat vals L st a = pat vals L st b := by
  funext i
  have hi : i.val ≤ L := Nat.le_of_lt_succ i.isLt
  have h1 : (fun j : Fin (L + 1) => decide (∃ c, slotOf st a i = some c ∧ slotOf st a j = some c)) =
      fun j : Fin (L + 1) => decide (∃ c, slotOf st b i = some c ∧ slotOf st b j = some c) := by
    funext j
    have hj : j.val ≤ L := Nat.le_of_lt_succ j.isLt
    exact decide_eq_decide.2 ((ha i j hi hj).trans (hb i j hi hj).symm)
  simp only [pat, leafCode, leafOf_none_plain hp, h1]

theorem slotOf_copy {st : Store} {F : Nat} {st1 : Store} {F' : Nat} {κ : Nat → Nat}
    {dom : Nat → Prop} {π : Nat → Nat} (hc : CopySpec st F st1 F' κ dom π) (hr : Rng st)
    (ha : Acyc st) (j : Nat) :
    slotOf st1 F' j = (slotOf st F j).map κ ∧ ∀ u, slotOf st F j = some u → dom u := by
  obtain ⟨hd, hdd⟩ := hc.deref_κ hr ha F hc.domF
  unfold slotOf
  rw [byPath_one, byPath_one, ← hc.κF, hd, cont, hc.node _ hdd]
  show Option.map (deref st1) (lookupC (lab j) ((cont st (deref st F)).map fun e => (e.1, κ e.2))) =
    _ ∧ _
  rw [lookupC_map]
  cases hl : lookupC (lab j) (cont st (deref st F)) with
  | none => simp
  | some r =>
    have hdr := hc.dom_cont _ _ r hdd (lookupC_mem hl)
    obtain ⟨h1, h2⟩ := hc.deref_κ hr ha r hdr
    simp only [Option.map_some, Option.some.injEq]
    exact ⟨h1, fun u hu => by rw [← hu]; exact h2⟩

theorem slotOf_setPointer {st : Store} (ha : Acyc st) {c d : Nat} (hc : ptr st c = none)
    (hd : ptr st d = none) (hcd : c ≠ d) (hlt : c < st.length) {F : Nat} (hF : deref st F ≠ c)
    (j : Nat) :
    slotOf (setPointer st c d) F j = (slotOf st F j).map fun z => if z = c then d else z := by
  unfold slotOf
  rw [byPath_one, byPath_one, deref_setPointer ha hc hd hcd hlt, if_neg hF, cont_setPointer]
  cases lookupC (lab j) (cont st (deref st F)) with
  | none => rfl
  | some r =>
    simp only [Option.map_some, Option.some.injEq]
    exact deref_setPointer ha hc hd hcd hlt r

/-! ### the invariant of the feature-free case -/

structure TP (C : Ctx) (vals : List String) (L : Nat) (T : Tables) (rk : Nat → Nat)
    (X : List (Nat × EState)) : Prop where
  tb : TB C vals L T rk X
  feat : C.featured = false
  plain : PlainSt T.store
  pfs : ∀ k, (prodOf C.G k).feats < T.store.length
  tsc : ∀ j s, s ∈ colGet T.chart j → TS T.store L s.fs (prodOf C.G s.prod).feats
  tsp : ∀ j s, s ∈ procStates T j → TS T.store L s.fs (prodOf C.G s.prod).feats
  tsx : ∀ e ∈ X, TS T.store L e.2.fs (prodOf C.G e.2.prod).feats

section
variable {C : Ctx} {vals : List String} {L : Nat}

theorem TP.weaken {T : Tables} {rk : Nat → Nat} {X X' : List (Nat × EState)}
    (h : TP C vals L T rk X) (hsub : ∀ e ∈ X', e ∈ X) : TP C vals L T rk X' :=
  ⟨h.tb.weaken hsub, h.feat, h.plain, h.pfs, h.tsc, h.tsp, fun e he => h.tsx e (hsub e he)⟩

theorem TP.withProc {T : Tables} {rk : Nat → Nat} {X : List (Nat × EState)}
    (h : TP C vals L T rk X) (j : Nat) :
    TP C vals L T rk (X ++ (procStates T j).map fun nx => (j, nx)) := by
  refine ⟨h.tb.withProc j, h.feat, h.plain, h.pfs, h.tsc, h.tsp, ?_⟩
  intro e he
  rcases List.mem_append.1 he with he | he
  · exact h.tsx e he
  · rw [List.mem_map] at he
    obtain ⟨nx, hnx, rfl⟩ := he
    exact h.tsp _ _ hnx

theorem TP.pop {T : Tables} {rk : Nat → Nat} (h : TP C vals L T rk []) {i : Nat} {s : EState}
    (hs : s ∈ colGet T.chart i) : TP C vals L (popT T i) rk [(i, s)] := by
  have hsub : ∀ j s', s' ∈ colGet (popT T i).chart j → s' ∈ colGet T.chart j := by
    intro j s' hm
    unfold popT at hm
    simp only at hm
    rcases mem_colGet_set hm with ⟨rfl, h2⟩ | h2
    · exact List.dropLast_subset _ h2
    · exact h2
  refine ⟨h.tb.pop hs, h.feat, h.plain, h.pfs, fun j s' hm => h.tsc j s' (hsub j s' hm), h.tsp, ?_⟩
  intro e he
  simp only [List.mem_singleton] at he; subst he
  exact h.tsc i s hs

theorem TP.store {T : Tables} {rk rk' : Nat → Nat} {X : List (Nat × EState)}
    (h : TP C vals L T rk X) {st' : Store} (hT' : TB C vals L { T with store := st' } rk' X)
    (hf : Fr T.store st') (hp : PlainSt st') : TP C vals L { T with store := st' } rk' X := by
  have hw := h.tb.base.inv.wf
  have ha := hw.inv.acyc
  have hr := hw.rng
  refine ⟨hT', h.feat, hp, fun k => Nat.lt_of_lt_of_le (h.pfs k) hf.len, ?_, ?_, ?_⟩
  · intro j s hs
    exact (h.tsc j s hs).fr hf ha hr (h.tb.base.inv.chart j s hs).fs_lt (h.pfs _)
  · intro j s hs
    exact (h.tsp j s hs).fr hf ha hr (h.tb.base.inv.proc j s hs).fs_lt (h.pfs _)
  · intro e he
    exact (h.tsx e he).fr hf ha hr (h.tb.base.inv.extra e he).fs_lt (h.pfs _)

theorem TP.push {T : Tables} {rk : Nat → Nat} {X : List (Nat × EState)}
    (h : TP C vals L T rk X) {i : Nat} {s : EState}
    (hT' : TB C vals L (pushIfNew C.G T i s) rk X)
    (hts : TS T.store L s.fs (prodOf C.G s.prod).feats) :
    TP C vals L (pushIfNew C.G T i s) rk X := by
  have hst := pushIfNew_store C.G T i s
  refine ⟨hT', h.feat, by rw [hst]; exact h.plain, by rw [hst]; exact h.pfs, ?_, ?_,
    by rw [hst]; exact h.tsx⟩
  · intro j s' hm
    rw [hst]
    rw [pushIfNew_chart] at hm
    split at hm
    · rcases mem_colGet_set hm with ⟨rfl, h2⟩ | h2
      · rcases List.mem_append.1 h2 with h3 | h3
        · exact h.tsc _ s' h3
        · simp only [List.mem_singleton] at h3; subst h3; exact hts
      · exact h.tsc j s' h2
    · exact h.tsc j s' hm
  · intro j s' hm
    rw [hst]
    rw [pushIfNew_proc] at hm
    rcases procAdd_states C.G T i s j s' hm with ⟨rfl, rfl⟩ | h2
    · exact hts
    · exact h.tsp j s' h2

/-- at most one state under a key -/
theorem TP.acc_le {T : Tables} {rk : Nat → Nat} {X : List (Nat × EState)}
    (h : TP C vals L T rk X) (j : Nat) :
    acc T j ≤ (C.spec.length + 1) * (C.word.length + 1) * (L + 1) := by
  rw [acc_eq]
  have h1 : ∀ e ∈ colGet T.processed j, e.2.length ≤ 1 := by
    intro e he
    have hnd := h.tb.pn j e he
    have hkeys := h.tb.base.keys j e he
    match hl : e.2 with
    | [] => simp
    | [o] => simp
    | o1 :: o2 :: rest =>
      exfalso
      rw [hl] at hnd hkeys
      have k1 := hkeys o1 (by simp)
      have k2 := hkeys o2 (by simp)
      have hprod : o1.prod = o2.prod := by
        have := k1.trans k2.symm
        simp only [Prod.mk.injEq] at this
        exact this.1
      have m1 : o1 ∈ procStates T j := mem_proc_of_entry he (by rw [hl]; simp)
      have m2 : o2 ∈ procStates T j := mem_proc_of_entry he (by rw [hl]; simp)
      have t1 := h.tsp j o1 m1
      have t2 := h.tsp j o2 m2
      rw [hprod] at t1
      have := pat_plain (vals := vals) h.plain t1 t2
      simp only [List.map_cons, List.nodup_cons, List.mem_cons] at hnd
      exact hnd.1 (Or.inl this)
  have h2 := flen_le 1 _ h1
  have h3 : (colGet T.processed j).length ≤ (C.spec.length + 1) * (C.word.length + 1) * (L + 1) := by
    have := keys_le _ (h.tb.kn j) (fun k hk => by
      rw [List.mem_map] at hk
      obtain ⟨e, he, rfl⟩ := hk
      exact h.tb.kr j e he)
    simpa using this
  omega

/-! ### `advance` in the feature-free case -/

theorem advance_tp (hC : CtxOK C) (hc : TC C vals L) {d : String} (hd : C.P d) {T : Tables}
    {rk : Nat → Nat} {X : List (Nat × EState)} (hT : TP C vals L T rk X) {i : Nat} {c nx : EState}
    (hs : (i, c) ∈ X) (hnx : (c.b, nx) ∈ X) (hi : i < C.word.length + 1)
    (hcomp : incomplete C.G c = false) (hinc : incomplete C.G nx = true)
    (hnext : nextSym C.G nx = some (.var (prodOf C.G c.prod).head)) :
    ∃ rk', TP C vals L (Pfl.Earley.advance C.G T nx c) rk' X := by
  obtain ⟨st1, cl, κ1, dom1, π1, st2, cr, κ2, dom2, π2, rh, rs, rk1, rk2, hc1, hc2, hw1, hw2,
    hrh, hdomrh, hrs1, hdomrs, _, heq, hT2, hok⟩ :=
    advance_setup hC hc hd hT.tb hs hnx hi hcomp hinc hnext
  have hB := hT.tb.base
  have hcOK := hB.inv.extra _ hs
  have hnxOK := hB.inv.extra _ hnx
  have hw0 := hB.inv.wf
  have hfr1 : Fr T.store st1 := copy_fr hc1
  have hfr2 : Fr st1 st2 := copy_fr hc2
  have hp1 : PlainSt st1 := plain_copy hc1 hw0.rng hw0.inv.acyc hT.plain
  have hp2 : PlainSt st2 := plain_copy hc2 hw1.rng hw1.inv.acyc hp1
  have ha2 := hw2.inv.acyc
  -- the class of the expected symbol record of the copy of `nx`
  obtain ⟨hdca, hddca⟩ := hc2.deref_κ hw1.rng hw1.inv.acyc rs hdomrs
  have hrsmem : (toString nx.dot, rs) ∈ cont st1 (deref st1 nx.fs) := by
    rw [byPath_one] at hrs1; exact lookupC_mem hrs1
  have hca0 : cont st2 (deref st2 (κ2 rs)) = [] := by
    rw [hdca, cont, hc2.node _ hddca]
    show (cont st1 (deref st1 rs)).map (fun e => (e.1, κ2 e.2)) = []
    rw [hp1 _ _ _ hrsmem]; rfl
  have hcage : st1.length ≤ deref st2 (κ2 rs) := by rw [hdca]; exact (hc2.rng _ hddca).1
  have hcalt : deref st2 (κ2 rs) < st2.length := by rw [hdca]; exact (hc2.rng _ hddca).2
  -- the class of the head record of the copy of `c`
  obtain ⟨hdcb, hddcb⟩ := hc1.deref_κ hw0.rng hw0.inv.acyc rh hdomrh
  have hleftlt : κ1 rh < st1.length := (hc1.rng rh hdomrh).2
  have hcb1 : deref st2 (κ1 rh) = κ1 (deref T.store rh) := by
    rw [hc2.deref_old hw1.rng hw1.inv.acyc hleftlt, hdcb]
  have hcblt : deref st2 (κ1 rh) < st1.length := by rw [hcb1]; exact (hc1.rng _ hddcb).2
  have hrhmem : ("head", rh) ∈ cont T.store (deref T.store c.fs) := by
    rw [byPath_one] at hrh; exact lookupC_mem hrh
  have hcb0 : cont st2 (deref st2 (κ1 rh)) = [] := by
    rw [cont, hc2.old hcblt, hcb1, hc1.node _ hddcb]
    show (cont T.store (deref T.store rh)).map (fun e => (e.1, κ1 e.2)) = []
    rw [hT.plain _ _ _ hrhmem]; rfl
  have hne : deref st2 (κ2 rs) ≠ deref st2 (κ1 rh) := by omega
  have hnv2 : NoVal st2 := hT2.base.nv hT.feat
  have hun := unify_plain (st := st2) (a := κ2 rs) (b := κ1 rh) (st2.length + 1) hne hca0 hcb0
    (by rw [hnv2, hnv2])
  obtain ⟨rk3, hT3, hnsOK, hnsP, hrl, hdotL, hce, hfr3⟩ := hok _ hun
  rw [heq, hun]
  simp only
  generalize hcadef : deref st2 (κ2 rs) = ca at *
  generalize hcbdef : deref st2 (κ1 rh) = cb at *
  have hpca : ptr st2 ca = none := by rw [← hcadef]; exact deref_ptr_none ha2 _
  have hpcb : ptr st2 cb = none := by rw [← hcbdef]; exact deref_ptr_none ha2 _
  have hp3 : PlainSt (setPointer st2 ca cb) := plain_setPointer ha2 hp2 hpca hpcb hne hcalt hcb0
  have hTP3 := hT.store hT3 hfr3 hp3
  refine ⟨rk3, hTP3.push (hT3.push hc hce hnsOK hnsP hrl hdotL) ?_⟩
  -- the symbol records of the new record coincide as those of the waiting state
  show TS (setPointer st2 ca cb) L cr (prodOf C.G nx.prod).feats
  have hts := hT.tsx _ hnx
  have hP := hT.pfs nx.prod
  intro i' j' hi' hj'
  have hroot : deref st2 cr ≠ ca := by
    intro e
    obtain ⟨hdr, hddr⟩ := hc2.deref_κ hw1.rng hw1.inv.acyc nx.fs hc2.domF
    rw [hc2.κF] at hdr
    have : cont st2 (deref st2 cr) = [] := by rw [e]; exact hca0
    rw [hdr, cont, hc2.node _ hddr] at this
    have h0 : cont st1 (deref st1 nx.fs) = [] := by simpa using this
    rw [h0] at hrsmem
    simp at hrsmem
  have hslot3 : ∀ k, slotOf (setPointer st2 ca cb) cr k =
      ((slotOf T.store nx.fs k).map κ2).map fun z => if z = ca then cb else z := by
    intro k
    rw [slotOf_setPointer ha2 hpca hpcb hne hcalt hroot, (slotOf_copy hc2 hw1.rng hw1.inv.acyc k).1,
      slotOf_fr hfr1 hw0.inv.acyc hw0.rng hnxOK.fs_lt]
  have hdomk : ∀ k u, slotOf T.store nx.fs k = some u → dom2 u ∧ st1.length ≤ κ2 u := by
    intro k u hu
    rw [← slotOf_fr hfr1 hw0.inv.acyc hw0.rng hnxOK.fs_lt] at hu
    have := (slotOf_copy hc2 hw1.rng hw1.inv.acyc k).2 u hu
    exact ⟨this, (hc2.rng u this).1⟩
  have hPfr : ∀ k, slotOf (setPointer st2 ca cb) (prodOf C.G nx.prod).feats k =
      slotOf T.store (prodOf C.G nx.prod).feats k :=
    fun k => slotOf_fr hfr3 hw0.inv.acyc hw0.rng hP k
  rw [hslot3, hslot3, hPfr, hPfr, ← hts i' j' hi' hj']
  constructor
  · rintro ⟨z, h1, h2⟩
    cases hu1 : slotOf T.store nx.fs i' with
    | none => rw [hu1] at h1; simp at h1
    | some u1 =>
      cases hu2 : slotOf T.store nx.fs j' with
      | none => rw [hu2] at h2; simp at h2
      | some u2 =>
        rw [hu1] at h1; rw [hu2] at h2
        simp only [Option.map_some, Option.some.injEq] at h1 h2
        obtain ⟨d1, g1⟩ := hdomk _ _ hu1
        obtain ⟨d2, g2⟩ := hdomk _ _ hu2
        have hκ : κ2 u1 = κ2 u2 := by
          by_cases e1 : κ2 u1 = ca
          · rw [if_pos e1] at h1
            by_cases e2 : κ2 u2 = ca
            · rw [e1, e2]
            · rw [if_neg e2] at h2; omega
          · rw [if_neg e1] at h1
            by_cases e2 : κ2 u2 = ca
            · rw [if_pos e2] at h2; omega
            · rw [if_neg e2] at h2; omega
        have := hc2.inj _ _ d1 d2 hκ
        exact ⟨u1, rfl, by rw [this]⟩
  · rintro ⟨u, h1, h2⟩
    rw [h1, h2]
    exact ⟨_, rfl, rfl⟩

theorem prodOf_of_get {G : Grammar} {k : Nat} {p : FProd} (h : G.prods[k]? = some p) :
    prodOf G k = p := by
  unfold prodOf; rw [List.getD_eq_getElem?_getD, h]; rfl

/-- the invariant of the feature-free case is kept by the primitive steps; it bounds the columns
by the number of keys -/
theorem tp_chain (hC : CtxOK C) (hc : TC C vals L) {d : String} (hd : C.P d) :
    Chain C (TP C vals L) ((C.spec.length + 1) * (C.word.length + 1) * (L + 1)) where
  weaken := fun h hsub => h.weaken hsub
  withProc := fun h j => h.withProc j
  pop := fun h hs => h.pop hs
  lens := fun h => ⟨h.tb.base.lenc, h.tb.base.lenp⟩
  eeq := fun h e he => (h.tb.base.inv.extra e he).e_eq
  adv := fun h hs hnx hi hcomp hinc hnext => advance_tp hC hc hd h hs hnx hi hcomp hinc hnext
  scan := fun {T rk X i s t} h hm hn hw =>
    h.push (i := s.e + 1) (s := { s with e := s.e + 1, dot := s.dot + 1 })
      (scanner_tb hC hc h.tb (h.tb.base.inv.extra _ hm) (h.tb.base.pthx _ hm) (h.tb.rlx _ hm) hn hw)
      (h.tsx _ hm)
  pred := fun {T rk X k p e} h hget he =>
    h.push (h.tb.push hc he (predicted_ok hC h.tb.base.inv hget _) (h.tb.base.opth _ _ hget)
      (h.tb.rlo _ _ hget) (Nat.zero_le _)) (by
        show TS T.store L p.feats (prodOf C.G k).feats
        rw [prodOf_of_get hget]; exact TS.refl _ _ _)
  bound := fun h j => h.acc_le j

/-- feature-free grammars: the recogniser answers within the fuel "number of keys of a column
plus one" -/
theorem contains_total_plain (hC : CtxOK C) (hc : TC C vals L) {st0 : Store} {rk0 : Nat → Nat}
    (hw : WFS st0 rk0) (hlen : 2 ≤ st0.length)
    (hobjs : ∀ k p, C.G.prods[k]? = some p →
      p.feats < st0.length ∧ rk0 p.feats = 2 ∧ GoodObj C st0 k p.feats)
    (hgam : C.G.gammaFeats < st0.length ∧ rk0 C.G.gammaFeats = 2)
    (hsx : SX C.P st0 rk0) (hnv : C.featured = false → NoVal st0)
    (hcov : ∀ k p pr env, C.G.prods[k]? = some p → C.spec[k]? = some pr → C.okEnv k env →
      Cov C st0 p.feats k env)
    (hpth : ∀ k p, C.G.prods[k]? = some p → HasPaths C st0 p.feats k)
    (hgpth : HasPaths C st0 C.G.gammaFeats C.spec.length)
    (hrlo : ∀ (k : Nat) (p : FProd), C.G.prods[k]? = some p → RootLab st0 p.feats L)
    (hrlg : RootLab st0 C.G.gammaFeats L)
    (hfeat : C.featured = false) (hplain : PlainSt st0)
    {d : String} (hd : C.P d) {fuel : Nat}
    (hfuel : (C.spec.length + 1) * (C.word.length + 1) * (L + 1) + 1 ≤ fuel) :
    (contains C.G st0 C.word fuel).isSome = true := by
  have hTB1 := tb_init hC hc hw hlen hobjs hgam hsx hnv hcov hpth hgpth hrlo hrlg
  refine chain_contains (tp_chain hC hc hd) (rk0 := rk0) ?_ hfuel
  have hst := pushIfNew_store C.G (Tables.mk st0 (List.replicate (C.word.length + 1) [])
      (List.replicate (C.word.length + 1) [])) 0
      { prod := C.G.prods.length, b := 0, e := 0, dot := 0, fs := C.G.gammaFeats }
  have hpfs : ∀ k, (prodOf C.G k).feats < st0.length := by
    intro k
    cases hk : C.G.prods[k]? with
    | some p => rw [prodOf_of_get hk]; exact (hobjs k p hk).1
    | none =>
      have : prodOf C.G k =
          { head := C.G.gammaName, body := [.var C.G.start], feats := C.G.gammaFeats } := by
        unfold prodOf; rw [List.getD_eq_getElem?_getD, hk]; rfl
      rw [this]; exact hgam.1
  have hfirst : TS st0 L C.G.gammaFeats (prodOf C.G C.G.prods.length).feats := by
    have : prodOf C.G C.G.prods.length =
        { head := C.G.gammaName, body := [.var C.G.start], feats := C.G.gammaFeats } := by
      unfold prodOf
      rw [List.getD_eq_getElem?_getD, List.getElem?_eq_none (Nat.le_refl _)]; rfl
    rw [this]; exact TS.refl _ _ _
  refine ⟨hTB1, hfeat, by rw [hst]; exact hplain, by rw [hst]; exact hpfs, ?_, ?_, by simp⟩
  · intro j s' hm
    rw [hst]
    rw [pushIfNew_chart] at hm
    split at hm
    · rcases mem_colGet_set hm with ⟨rfl, h2⟩ | h2
      · simp only at h2
        rw [colGet_replicate] at h2
        simp only [List.nil_append, List.mem_singleton] at h2
        subst h2; exact hfirst
      · simp only at h2; rw [colGet_replicate] at h2; simp at h2
    · simp only at hm; rw [colGet_replicate] at hm; simp at hm
  · intro j s' hm
    rw [hst]
    rw [pushIfNew_proc] at hm
    rcases procAdd_states C.G _ 0 _ j s' hm with ⟨rfl, rfl⟩ | h2
    · exact hfirst
    · unfold procStates at h2; simp only at h2; rw [colGet_replicate] at h2; simp at h2

end

/-! ### the store built for a feature-free grammar -/

section Build
open Lem.Bld

/-- an empty object or a production record -/
def PNode (nd : Node) : Prop := nd = emptyNode ∨ ∃ h b, nd = rootN h b

theorem bodyStep_plain (a : BAcc) (item : Sym × Feat) (h : item.2 = none) :
    (bodyStep a item).1 = a.1 ++ [emptyNode] := by
  obtain ⟨sym, f⟩ := item
  simp only at h
  subst h
  cases sym <;> rfl

theorem body_fold_plain : ∀ (items : List (Sym × Feat)) (a : BAcc), (∀ it ∈ items, it.2 = none) →
    (∀ nd ∈ a.1, PNode nd) → ∀ nd ∈ (items.foldl bodyStep a).1, PNode nd := by
  intro items
  induction items with
  | nil => intro a _ h; exact h
  | cons it items ih =>
    intro a hn h
    rw [List.foldl_cons]
    refine ih _ (fun it' h' => hn it' (List.mem_cons_of_mem _ h')) ?_
    rw [bodyStep_plain a it (hn it (List.mem_cons_self ..))]
    intro nd hnd
    rcases List.mem_append.1 hnd with h1 | h1
    · exact h nd h1
    · simp only [List.mem_singleton] at h1; exact Or.inl h1

theorem prodStep_plain (acc : Store × List FProd) (pr : Spec1) (h1 : pr.1.2 = none)
    (h2 : ∀ it ∈ pr.2, it.2 = none) (h : ∀ nd ∈ acc.1, PNode nd) :
    ∀ nd ∈ (prodStep acc pr).1, PNode nd := by
  unfold prodStep
  simp only
  rw [h1, fsFor_none]
  intro nd hnd
  rcases List.mem_append.1 hnd with h3 | h3
  · refine body_fold_plain pr.2 _ h2 ?_ nd h3
    intro nd' hnd'
    rcases List.mem_append.1 hnd' with h4 | h4
    · exact h nd' h4
    · simp only [List.mem_singleton] at h4; exact Or.inl h4
  · simp only [List.mem_singleton] at h3
    exact Or.inr ⟨_, _, h3⟩

theorem outer_fold_plain : ∀ (spec : List Spec1) (acc : Store × List FProd),
    (∀ pr ∈ spec, pr.1.2 = none ∧ ∀ it ∈ pr.2, it.2 = none) → (∀ nd ∈ acc.1, PNode nd) →
    ∀ nd ∈ (spec.foldl prodStep acc).1, PNode nd := by
  intro spec
  induction spec with
  | nil => intro acc _ h; exact h
  | cons pr spec ih =>
    intro acc hs h
    rw [List.foldl_cons]
    refine ih _ (fun pr' h' => hs pr' (List.mem_cons_of_mem _ h')) ?_
    obtain ⟨g1, g2⟩ := hs pr (List.mem_cons_self ..)
    exact prodStep_plain acc pr g1 g2 h

/-- the store of a feature-free grammar consists of empty objects and production records -/
theorem build_plain (spec : List Spec1) (start : String)
    (hs : ∀ pr ∈ spec, pr.1.2 = none ∧ ∀ it ∈ pr.2, it.2 = none) :
    ∀ nd ∈ (buildGrammar spec start).1, PNode nd := by
  rw [buildGrammar_eq]
  simp only
  have h := outer_fold_plain spec ([], []) hs (by simp)
  intro nd hnd
  unfold gammaStep at hnd
  simp only [List.append_assoc, List.mem_append, List.mem_cons, List.not_mem_nil, or_false] at hnd
  rcases hnd with h1 | h1 | h1 | h1
  · exact h nd h1
  · exact Or.inl h1
  · exact Or.inl h1
  · exact Or.inr ⟨_, [_], by rw [h1, rootN_single]⟩

theorem PNode.get {st : Store} (h : ∀ nd ∈ st, PNode nd) (i : Nat) : PNode (FsDag.get st i) := by
  by_cases hi : i < st.length
  · rw [get_lt hi]; exact h _ (List.getElem_mem hi)
  · rw [get_ge (Nat.le_of_not_lt hi)]; exact Or.inl rfl

/-- in the store of a feature-free grammar every feature leads to an empty object -/
theorem plainSt_built {Src : String → Prop} {spec : List Spec1} {st0 : Store} {G : Grammar}
    (hbo : BuiltOK Src spec st0 G) {rk : Nat → Nat} (hw : WFS st0 rk)
    (hrk : ∀ p ∈ G.prods, rk p.feats = 2) (hrkg : rk G.gammaFeats = 2)
    (hpn : ∀ nd ∈ st0, PNode nd) : PlainSt st0 := by
  -- an object with features is a production record of rank 2
  have hroot : ∀ i g x, (g, x) ∈ cont st0 i → rk i = 2 := by
    intro i g x hx
    rcases hbo.node i with (hk | ⟨y, hk⟩ | ⟨v, _, hk⟩ | ⟨j, hk⟩) | ⟨hfs, bfs, _, horg⟩
    · rw [cont, hk] at hx; simp [emptyNode] at hx
    · rcases PNode.get hpn i with h1 | ⟨h, b, h1⟩
      · rw [hk] at h1; simp [recN, emptyNode] at h1
      · rw [hk] at h1; simp [recN, rootN, prodContent] at h1
    · rw [cont, hk] at hx; simp [atomN] at hx
    · rw [cont, hk] at hx; simp [linkN] at hx
    · rcases horg with ⟨p, hp, rfl⟩ | rfl
      · exact hrk p hp
      · exact hrkg
  intro i g x hx
  have hri := hroot i g x hx
  have hrx : rk x = 1 := by
    have := (hw.inv.rkc i g x hx).1
    unfold crE at this; omega
  rcases PNode.get hpn x with h1 | ⟨h, b, h1⟩
  · have hp : ptr st0 x = none := by rw [ptr, h1]; rfl
    rw [deref_of_none hp, cont, h1]; rfl
  · exfalso
    have hm : ("head", h) ∈ cont st0 x := by rw [cont, h1]; simp [rootN, prodContent]
    have := hroot x _ _ hm
    omega

end Build

end Term
end Earley
end Pfl
