/-
Helper lemmas for C06 (state elimination, `Pfl/Model/ToRegex.lean`).

Plan: languages are predicates `Lg := List String → Prop` with the usual operations; a graph whose
edges carry languages has a path semantics `LRun`; eliminating a state at the level of edge
languages (`Eelim`) preserves `LRun` between the other states; the two-state graph is read off by
the classical formula; the model's `orEdges` / `removeState` / `labelOf` / `getTemp` / `regexSub`
are shown to compute these language-level operations.
-/
import Pfl.Model.ToRegex
import Pfl.Spec.FA
import Pfl.Spec.Regex
import Pfl.Proofs.RegexLemmas
namespace Pfl
namespace ToRegex
namespace Lem
open Rx

/-! ### languages -/

abbrev Lg := List String → Prop

def Leps : Lg := fun u => u = []
def Lempty : Lg := fun _ => False
def Lcat (A B : Lg) : Lg := fun u => ∃ a b, u = a ++ b ∧ A a ∧ B b
def Lalt (A B : Lg) : Lg := fun u => A u ∨ B u

inductive LStar (A : Lg) : Lg
  | nil : LStar A []
  | cons {u v : List String} : A u → LStar A v → LStar A (u ++ v)

/-- denotation of an optional regex (`none` = no word) -/
def ODen : Option Rx → Lg
  | none => Lempty
  | some r => Denote r

@[simp] theorem ODen_none : ODen none = Lempty := rfl
@[simp] theorem ODen_some (r : Rx) : ODen (some r) = Denote r := rfl

theorem LStar.append {A : Lg} {u v : List String} (h1 : LStar A u) (h2 : LStar A v) :
    LStar A (u ++ v) := by
  induction h1 with
  | nil => simpa using h2
  | cons ha _ ih => rw [List.append_assoc]; exact .cons ha ih

theorem LStar.one {A : Lg} {u : List String} (h : A u) : LStar A u := by
  have := LStar.cons h (LStar.nil (A := A))
  simpa using this

/-- only the non-empty words of `A` matter for `LStar A` -/
theorem LStar.mono_ne {A B : Lg} (h : ∀ u, u ≠ [] → A u → B u) {w : List String}
    (hw : LStar A w) : LStar B w := by
  induction hw with
  | nil => exact .nil
  | @cons u v ha _ ih =>
    by_cases hu : u = []
    · subst hu; simpa using ih
    · exact .cons (h u hu ha) ih

theorem LStar.mono {A B : Lg} (h : ∀ u, A u → B u) {w : List String}
    (hw : LStar A w) : LStar B w := hw.mono_ne (fun u _ => h u)

theorem LStar_congr_ne {A B : Lg} (h : ∀ u, u ≠ [] → (A u ↔ B u)) : LStar A = LStar B := by
  funext w
  exact propext ⟨fun hw => hw.mono_ne (fun u hu => (h u hu).mp),
    fun hw => hw.mono_ne (fun u hu => (h u hu).mpr)⟩

@[simp] theorem Lcat_eps_left (A : Lg) : Lcat Leps A = A := by
  funext u
  apply propext
  constructor
  · rintro ⟨a, b, rfl, ha, hb⟩
    cases ha
    simpa using hb
  · intro h; exact ⟨[], u, rfl, rfl, h⟩

@[simp] theorem Lcat_eps_right (A : Lg) : Lcat A Leps = A := by
  funext u
  apply propext
  constructor
  · rintro ⟨a, b, rfl, ha, hb⟩
    cases hb
    simpa using ha
  · intro h; exact ⟨u, [], by simp, h, rfl⟩

@[simp] theorem Lcat_empty_left (A : Lg) : Lcat Lempty A = Lempty := by
  funext u
  apply propext
  constructor
  · rintro ⟨a, b, _, ha, _⟩; exact ha
  · intro h; exact h.elim

@[simp] theorem Lcat_empty_right (A : Lg) : Lcat A Lempty = Lempty := by
  funext u
  apply propext
  constructor
  · rintro ⟨a, b, _, _, hb⟩; exact hb
  · intro h; exact h.elim

theorem Lcat_assoc (A B C : Lg) : Lcat (Lcat A B) C = Lcat A (Lcat B C) := by
  funext u
  apply propext
  constructor
  · rintro ⟨ab, c, rfl, ⟨a, b, rfl, ha, hb⟩, hc⟩
    exact ⟨a, b ++ c, by simp, ha, b, c, rfl, hb, hc⟩
  · rintro ⟨a, bc, rfl, ha, b, c, rfl, hb, hc⟩
    exact ⟨a ++ b, c, by simp, ⟨a, b, rfl, ha, hb⟩, hc⟩

@[simp] theorem Lalt_empty_right (A : Lg) : Lalt A Lempty = A := by
  funext u
  apply propext
  constructor
  · rintro (h | h)
    · exact h
    · exact h.elim
  · intro h; exact Or.inl h

@[simp] theorem Lalt_empty_left (A : Lg) : Lalt Lempty A = A := by
  funext u
  apply propext
  constructor
  · rintro (h | h)
    · exact h.elim
    · exact h
  · intro h; exact Or.inr h

@[simp] theorem LStar_eps : LStar Leps = Leps := by
  funext w
  apply propext
  constructor
  · intro h
    induction h with
    | nil => rfl
    | cons ha _ ih => cases ha; cases ih; rfl
  · intro h; cases h; exact .nil

@[simp] theorem LStar_empty : LStar Lempty = Leps := by
  funext w
  apply propext
  constructor
  · intro h
    cases h with
    | nil => rfl
    | cons ha _ => exact ha.elim
  · intro h; cases h; exact .nil

@[simp] theorem LStar_alt_eps (A : Lg) : LStar (Lalt Leps A) = LStar A := by
  apply LStar_congr_ne
  intro u hu
  constructor
  · rintro (h | h)
    · exact absurd h hu
    · exact h
  · intro h; exact Or.inr h

/-! ### denotations as languages -/

@[simp] theorem den_eps : Denote .eps = Leps := by
  funext u; exact propext (Rx.Lem.eps_denote u)

@[simp] theorem den_empty : Denote .empty = Lempty := by
  funext u; exact propext ⟨fun h => Rx.Lem.empty_denote u h, fun h => h.elim⟩

@[simp] theorem den_cat (a b : Rx) : Denote (.cat a b) = Lcat (Denote a) (Denote b) := by
  funext u; exact propext (Rx.Lem.cat_denote a b u)

@[simp] theorem den_alt (a b : Rx) : Denote (.alt a b) = Lalt (Denote a) (Denote b) := by
  funext u; exact propext (Rx.Lem.alt_denote a b u)

theorem den_star_fwd : ∀ (r : Rx) (w : List String), Denote r w → ∀ a, r = .star a →
    LStar (Denote a) w := by
  intro r w h
  induction h with
  | eps => intro a h; cases h
  | sym s => intro a h; cases h
  | cat _ _ _ _ => intro a h; cases h
  | altL _ _ => intro a h; cases h
  | altR _ _ => intro a h; cases h
  | starNil => intro a _; exact .nil
  | starCons h1 _ _ ih2 =>
    intro a h
    cases h
    exact .cons h1 (ih2 _ rfl)

@[simp] theorem den_star (a : Rx) : Denote (.star a) = LStar (Denote a) := by
  funext u
  apply propext
  constructor
  · intro h; exact den_star_fwd _ _ h a rfl
  · intro h
    induction h with
    | nil => exact .starNil
    | cons ha _ ih => exact .starCons ha ih

/-- the `alt`-fold used everywhere in the model -/
theorem den_foldl_alt (ls : List Rx) : ∀ (l : Rx) (u : List String),
    Denote (ls.foldl Rx.alt l) u ↔ Denote l u ∨ ∃ x ∈ ls, Denote x u := by
  induction ls with
  | nil => intro l u; simp
  | cons y ys ih =>
    intro l u
    rw [List.foldl_cons, ih, den_alt]
    simp only [Lalt, List.mem_cons, exists_eq_or_imp]
    exact or_assoc

def altList : List Rx → Option Rx
  | [] => none
  | l :: ls => some (ls.foldl Rx.alt l)

theorem oden_altList (xs : List Rx) (u : List String) :
    ODen (altList xs) u ↔ ∃ x ∈ xs, Denote x u := by
  cases xs with
  | nil => simp [altList, Lempty]
  | cons l ls =>
    simp only [altList, ODen_some, den_foldl_alt, List.mem_cons, exists_eq_or_imp]

/-! ### paths in a graph whose edges carry languages -/
section Graph
variable {τ : Type}

inductive LRun (E : τ → τ → Lg) : τ → List String → τ → Prop
  | nil (p : τ) : LRun E p [] p
  | step {p r s : τ} {u v : List String} : E p r u → LRun E r v s → LRun E p (u ++ v) s

theorem LRun.trans {E : τ → τ → Lg} {p r s : τ} {u v : List String}
    (h1 : LRun E p u r) (h2 : LRun E r v s) : LRun E p (u ++ v) s := by
  induction h1 with
  | nil => simpa using h2
  | step he _ ih => rw [List.append_assoc]; exact .step he (ih h2)

theorem LRun.edge {E : τ → τ → Lg} {p r : τ} {u : List String} (h : E p r u) : LRun E p u r := by
  simpa using LRun.step h (LRun.nil r)

theorem LRun.mono {E E' : τ → τ → Lg} (h : ∀ p r u, E p r u → E' p r u) {p s : τ}
    {u : List String} (hr : LRun E p u s) : LRun E' p u s := by
  induction hr with
  | nil => exact .nil _
  | step he _ ih => exact .step (h _ _ _ he) ih

theorem LRun.congr {E E' : τ → τ → Lg} (h : ∀ p r u, E p r u ↔ E' p r u) {p s : τ}
    {u : List String} : LRun E p u s ↔ LRun E' p u s :=
  ⟨LRun.mono (fun p r u => (h p r u).mp), LRun.mono (fun p r u => (h p r u).mpr)⟩

theorem LRun.star {E : τ → τ → Lg} {p : τ} {u : List String} (h : LStar (E p p) u) :
    LRun E p u p := by
  induction h with
  | nil => exact .nil _
  | cons ha _ ih => exact .step ha ih

theorem LRun.inv {E : τ → τ → Lg} {p s : τ} {u : List String} (h : LRun E p u s) :
    (p = s ∧ u = []) ∨ ∃ r a v, u = a ++ v ∧ E p r a ∧ LRun E r v s := by
  cases h with
  | nil => exact Or.inl ⟨rfl, rfl⟩
  | step he hr => exact Or.inr ⟨_, _, _, rfl, he, hr⟩

/-- edge languages after eliminating `q` -/
def Eelim (E : τ → τ → Lg) (q : τ) : τ → τ → Lg := fun p r u =>
  p ≠ q ∧ r ≠ q ∧ (E p r u ∨ Lcat (E p q) (Lcat (LStar (E q q)) (E q r)) u)

theorem elim_fwd_aux (E : τ → τ → Lg) (q : τ) {p s : τ} {u : List String} (h : LRun E p u s)
    (hs : s ≠ q) :
    (p ≠ q → LRun (Eelim E q) p u s) ∧
    (p = q → ∃ b c v r, u = b ++ (c ++ v) ∧ LStar (E q q) b ∧ E q r c ∧ r ≠ q ∧
      LRun (Eelim E q) r v s) := by
  induction h with
  | nil p =>
    constructor
    · intro _; exact .nil _
    · intro hp; exact absurd hp hs
  | @step p r s u v he hr ih =>
    obtain ⟨ih1, ih2⟩ := ih hs
    constructor
    · intro hp
      by_cases hrq : r = q
      · obtain ⟨b, c, v', r', rfl, hb, hc, hr', hrun⟩ := ih2 hrq
        subst hrq
        have : Eelim E r p r' (u ++ (b ++ c)) :=
          ⟨hp, hr', Or.inr ⟨u, b ++ c, rfl, he, b, c, rfl, hb, hc⟩⟩
        have := LRun.step this hrun
        simpa [List.append_assoc] using this
      · exact .step ⟨hp, hrq, Or.inl he⟩ (ih1 hrq)
    · intro hp
      subst hp
      by_cases hrq : r = p
      · obtain ⟨b, c, v', r', rfl, hb, hc, hr', hrun⟩ := ih2 hrq
        subst hrq
        exact ⟨u ++ b, c, v', r', by simp, .cons he hb, hc, hr', hrun⟩
      · exact ⟨[], u, v, r, rfl, .nil, he, hrq, ih1 hrq⟩

theorem elim_bwd {E : τ → τ → Lg} {q : τ} {p s : τ} {u : List String}
    (h : LRun (Eelim E q) p u s) : LRun E p u s := by
  induction h with
  | nil => exact .nil _
  | step he _ ih =>
    obtain ⟨_, _, he | ⟨a, bc, rfl, ha, b, c, rfl, hb, hc⟩⟩ := he
    · exact .step he ih
    · exact ((LRun.edge ha).trans ((LRun.star hb).trans (LRun.edge hc))).trans ih

/-- eliminating `q` does not change the paths between the other states -/
theorem elim_iff (E : τ → τ → Lg) (q : τ) {p s : τ} (hp : p ≠ q) (hs : s ≠ q) (u : List String) :
    LRun (Eelim E q) p u s ↔ LRun E p u s :=
  ⟨elim_bwd, fun h => (elim_fwd_aux E q h hs).1 hp⟩

/-- the language read off a two-state graph -/
def twoLang (SS SE ES EE : Lg) : Lg :=
  Lcat (LStar (Lalt SS (Lcat (Lcat SE (LStar EE)) ES))) (Lcat SE (LStar EE))

theorem two_fwd_aux (E : τ → τ → Lg) (s f : τ) (hne : s ≠ f)
    (hE : ∀ p r u, E p r u → (p = s ∨ p = f) ∧ (r = s ∨ r = f))
    {p t : τ} {u : List String} (h : LRun E p u t) (ht : t = f) :
    (p = s → twoLang (E s s) (E s f) (E f s) (E f f) u) ∧
    (p = f → LStar (E f f) u ∨
      Lcat (LStar (E f f)) (Lcat (E f s) (twoLang (E s s) (E s f) (E f s) (E f f))) u) := by
  induction h with
  | nil p =>
    subst ht
    constructor
    · intro hp; exact absurd hp.symm hne
    · intro _; exact Or.inl .nil
  | @step p r t u v he hr ih =>
    obtain ⟨ih1, ih2⟩ := ih ht
    have hr' := (hE _ _ _ he).2
    constructor
    · intro hp
      subst hp
      rcases hr' with rfl | rfl
      · obtain ⟨a, b, rfl, ha, hb⟩ := ih1 rfl
        exact ⟨u ++ a, b, by simp, .cons (Or.inl he) ha, hb⟩
      · rcases ih2 rfl with h | ⟨b, cR, rfl, hb, c, R, rfl, hc, d, e, rfl, hd, hee⟩
        · exact ⟨[], u ++ v, rfl, .nil, u, v, rfl, he, h⟩
        · refine ⟨(u ++ b ++ c) ++ d, e, by simp, .cons (Or.inr ?_) hd, hee⟩
          exact ⟨u ++ b, c, rfl, ⟨u, b, rfl, he, hb⟩, hc⟩
    · intro hp
      subst hp
      rcases hr' with rfl | rfl
      · exact Or.inr ⟨[], u ++ v, rfl, .nil, u, v, rfl, he, ih1 rfl⟩
      · rcases ih2 rfl with h | ⟨b, cR, rfl, hb, hcR⟩
        · exact Or.inl (.cons he h)
        · exact Or.inr ⟨u ++ b, cR, by simp, .cons he hb, hcR⟩

theorem two_state (E : τ → τ → Lg) (s f : τ) (hne : s ≠ f)
    (hE : ∀ p r u, E p r u → (p = s ∨ p = f) ∧ (r = s ∨ r = f)) (u : List String) :
    LRun E s u f ↔ twoLang (E s s) (E s f) (E f s) (E f f) u := by
  constructor
  · intro h; exact (two_fwd_aux E s f hne hE h rfl).1 rfl
  · rintro ⟨a, b, rfl, ha, c, d, rfl, hc, hd⟩
    have hP1 : ∀ c d, E s f c → LStar (E f f) d → LRun E s (c ++ d) f :=
      fun c d hc hd => (LRun.edge hc).trans (LRun.star hd)
    refine LRun.trans ?_ (hP1 c d hc hd)
    induction ha with
    | nil => exact .nil _
    | cons hx _ ih =>
      refine LRun.trans ?_ ih
      rcases hx with hx | ⟨cd, e, rfl, ⟨c, d, rfl, hc, hd⟩, he⟩
      · exact LRun.edge hx
      · exact (hP1 c d hc hd).trans (LRun.edge he)

theorem one_state (E : τ → τ → Lg) (s : τ)
    (hE : ∀ p r u, E p r u → p = s ∧ r = s) (u : List String) :
    LRun E s u s ↔ LStar (E s s) u := by
  constructor
  · intro h
    have aux : ∀ {p t : τ} {u : List String}, LRun E p u t → p = s → LStar (E s s) u := by
      intro p t u h
      induction h with
      | nil => intro _; exact .nil
      | step he _ ih =>
        intro hp
        subst hp
        obtain ⟨_, rfl⟩ := hE _ _ _ he
        exact .cons he (ih rfl)
    exact aux h rfl
  · exact LRun.star

end Graph

/-! ### `getTemp`, `regexSub` -/

theorem getTemp_spec (se : Rx) (es : Option Rx) (ee : Rx) :
    Denote (getTemp se es ee).2 = Lcat (Denote se) (LStar (Denote ee)) ∧
    ODen (getTemp se es ee).1 = Lcat (Lcat (Denote se) (LStar (Denote ee))) (ODen es) := by
  unfold getTemp
  by_cases h1 : se = .eps <;> by_cases h2 : ee = .eps
  · subst h1 h2
    cases es with
    | none => simp
    | some e =>
      by_cases h3 : e = .eps
      · subst h3; simp
      · simp [h3]
  · subst h1
    cases es with
    | none => simp [h2]
    | some e =>
      by_cases h3 : e = .eps
      · subst h3; simp [h2]
      · simp [h2, h3]
  · subst h2
    cases es with
    | none => simp [h1]
    | some e =>
      by_cases h3 : e = .eps
      · subst h3; simp [h1]
      · simp [h1, h3]
  · cases es with
    | none => simp [h1, h2]
    | some e =>
      by_cases h3 : e = .eps
      · subst h3; simp [h1, h2]
      · simp [h1, h2, h3]

theorem regexSub_spec (ss : Rx) (se es : Option Rx) (ee : Rx) :
    ODen (regexSub ss se es ee) = twoLang (Denote ss) (ODen se) (ODen es) (Denote ee) := by
  cases se with
  | none => simp [regexSub, twoLang]
  | some se =>
    have h := getTemp_spec se es ee
    dsimp only [regexSub]
    generalize getTemp se es ee = g at h ⊢
    obtain ⟨temp, part1⟩ := g
    obtain ⟨hp, ht⟩ := h
    simp only at hp ht
    simp only [ODen_some, den_cat, twoLang, hp]
    congr 1
    rw [← ht]
    by_cases h1 : ss = .eps
    · subst h1
      cases temp with
      | none => simp
      | some t =>
        by_cases h3 : t = .eps
        · subst h3; simp
        · simp [h3]
    · cases temp with
      | none => simp [h1]
      | some t => simp [h1]

/-! ### the model's graphs -/
section Model
variable {τ : Type} [DecidableEq τ]

/-- the language carried by the edges from `p` to `r` -/
def EL (es : Edges τ) : τ → τ → Lg := fun p r u => ∃ l, (p, l, r) ∈ es ∧ Denote l u

theorem labelOf_eq (es : Edges τ) (p r : τ) :
    labelOf es p r = altList ((es.filter fun e => e.1 = p ∧ e.2.2 = r).map (·.2.1)) := by
  unfold labelOf
  generalize (es.filter fun e => e.1 = p ∧ e.2.2 = r).map (·.2.1) = xs
  cases xs <;> rfl

theorem labelOf_spec (es : Edges τ) (p r : τ) : ODen (labelOf es p r) = EL es p r := by
  funext u
  apply propext
  rw [labelOf_eq, oden_altList]
  constructor
  · rintro ⟨x, hx, hd⟩
    obtain ⟨⟨p', l, r'⟩, he, rfl⟩ := List.mem_map.mp hx
    simp only [List.mem_filter, decide_eq_true_eq] at he
    obtain ⟨he, rfl, rfl⟩ := he
    exact ⟨l, he, hd⟩
  · rintro ⟨l, he, hd⟩
    exact ⟨l, List.mem_map.mpr ⟨(p, l, r), by simp [he], rfl⟩, hd⟩

theorem orEdges_eq (states : List τ) (es : Edges τ) :
    orEdges states es = states.flatMap fun p =>
      ((es.filter (·.1 = p)).map (·.2.2)).eraseDups.filterMap fun r =>
        (altList (((es.filter (·.1 = p)).filter (·.2.2 = r)).map (·.2.1)).eraseDups).map
          fun l => (p, l, r) := by
  unfold orEdges
  congr 1
  funext p
  dsimp only
  congr 1
  funext r
  generalize (((es.filter (·.1 = p)).filter (·.2.2 = r)).map (·.2.1)).eraseDups = X
  cases X <;> rfl

theorem orEdges_spec (states : List τ) (es : Edges τ) (p r : τ) (u : List String) :
    EL (orEdges states es) p r u ↔ p ∈ states ∧ EL es p r u := by
  have hm := orEdges_eq states es
  constructor
  · rintro ⟨l, he, hd⟩
    rw [hm] at he
    simp only [List.mem_flatMap, List.mem_filterMap, Option.map_eq_some_iff] at he
    obtain ⟨p', hp', r', _, l', hl', heq⟩ := he
    simp only [Prod.mk.injEq] at heq
    obtain ⟨rfl, rfl, rfl⟩ := heq
    refine ⟨hp', ?_⟩
    have : ODen (altList ((List.filter (fun x => decide (x.2.2 = r'))
        (List.filter (fun x => decide (x.1 = p')) es)).map (·.2.1)).eraseDups) u := by
      rw [hl']; exact hd
    rw [oden_altList] at this
    obtain ⟨x, hx, hxd⟩ := this
    rw [List.mem_eraseDups] at hx
    obtain ⟨⟨p'', l, r''⟩, he, rfl⟩ := List.mem_map.mp hx
    simp only [List.mem_filter, decide_eq_true_eq] at he
    obtain ⟨⟨he, rfl⟩, rfl⟩ := he
    exact ⟨l, he, hxd⟩
  · rintro ⟨hp, x, he, hd⟩
    have : ODen (altList ((List.filter (fun x => decide (x.2.2 = r))
        (List.filter (fun x => decide (x.1 = p)) es)).map (·.2.1)).eraseDups) u := by
      rw [oden_altList]
      refine ⟨x, ?_, hd⟩
      rw [List.mem_eraseDups]
      exact List.mem_map.mpr ⟨(p, x, r), by simp [he], rfl⟩
    cases hl : altList ((List.filter (fun x => decide (x.2.2 = r))
        (List.filter (fun x => decide (x.1 = p)) es)).map (·.2.1)).eraseDups with
    | none => rw [hl] at this; exact this.elim
    | some l =>
      rw [hl] at this
      refine ⟨l, ?_, this⟩
      rw [hm]
      simp only [List.mem_flatMap, List.mem_filterMap, Option.map_eq_some_iff]
      refine ⟨p, hp, r, ?_, l, hl, rfl⟩
      rw [List.mem_eraseDups]
      exact List.mem_map.mpr ⟨(p, x, r), by simp [he], rfl⟩

def wrap (loop : List Rx) (x : Rx) : Rx :=
  match loop with
  | [] => x
  | l :: ls => Rx.cat (Rx.star (ls.foldl Rx.alt l)) x

theorem den_wrap (loop : List Rx) (x : Rx) :
    Denote (wrap loop x) = Lcat (LStar (ODen (altList loop))) (Denote x) := by
  cases loop <;> simp [wrap, altList]

/-- the edges of `removeState` before merging -/
def elimEdges (es : Edges τ) (q : τ) : Edges τ :=
  let outs := es.filter (·.1 = q)
  let loop := (outs.filter (·.2.2 = q)).map (·.2.1)
  let outs' : List (Rx × τ) := (outs.filter (·.2.2 ≠ q)).map fun e => (wrap loop e.2.1, e.2.2)
  let ins := es.filter fun e => e.2.2 = q ∧ e.1 ≠ q
  let rest := es.filter fun e => e.1 ≠ q ∧ e.2.2 ≠ q
  rest ++ ins.flatMap fun e => outs'.map fun o => (e.1, Rx.cat e.2.1 o.1, o.2)

theorem removeState_eq (states : List τ) (es : Edges τ) (q : τ) :
    removeState states es q =
      (states.filter (· ≠ q), orEdges (states.filter (· ≠ q)) (elimEdges es q)) := rfl

theorem loop_spec (es : Edges τ) (q : τ) :
    ODen (altList (((es.filter (·.1 = q)).filter (·.2.2 = q)).map (·.2.1))) = EL es q q := by
  rw [← labelOf_spec, labelOf_eq]
  congr 3
  rw [List.filter_filter]
  congr 1
  funext e
  simp [Bool.and_comm]

theorem mem_elimEdges (es : Edges τ) (q : τ) (p r : τ) (l : Rx) :
    (p, l, r) ∈ elimEdges es q ↔ p ≠ q ∧ r ≠ q ∧ ((p, l, r) ∈ es ∨
      ∃ l1 x, (p, l1, q) ∈ es ∧ (q, x, r) ∈ es ∧
        l = Rx.cat l1 (wrap (((es.filter (·.1 = q)).filter (·.2.2 = q)).map (·.2.1)) x)) := by
  unfold elimEdges
  simp only [List.mem_append, List.mem_filter, List.mem_flatMap, List.mem_map, decide_eq_true_eq,
    Bool.decide_and, Bool.and_eq_true, ne_eq, decide_not, Bool.not_eq_eq_eq_not, Bool.not_true,
    decide_eq_false_iff_not, Prod.mk.injEq, Prod.exists]
  constructor
  · rintro (⟨he, hp, hr⟩ | ⟨p', l1, r', ⟨he, rfl, hp⟩, lo, ro, ⟨q', x, r'', ⟨⟨he', rfl⟩, hr⟩, rfl, rfl⟩,
      rfl, rfl, rfl⟩)
    · exact ⟨hp, hr, Or.inl he⟩
    · exact ⟨hp, hr, Or.inr ⟨l1, x, he, he', rfl⟩⟩
  · rintro ⟨hp, hr, he | ⟨l1, x, he, he', rfl⟩⟩
    · exact Or.inl ⟨he, hp, hr⟩
    · exact Or.inr ⟨p, l1, q, ⟨he, rfl, hp⟩, _, r, ⟨q, x, r, ⟨⟨he', rfl⟩, hr⟩, rfl, rfl⟩,
        rfl, rfl, rfl⟩

theorem elimEdges_spec (es : Edges τ) (q p r : τ) (u : List String) :
    EL (elimEdges es q) p r u ↔ Eelim (EL es) q p r u := by
  unfold EL Eelim
  simp only [mem_elimEdges]
  constructor
  · rintro ⟨l, ⟨hp, hr, he | ⟨l1, x, he, he', rfl⟩⟩, hd⟩
    · exact ⟨hp, hr, Or.inl ⟨l, he, hd⟩⟩
    · refine ⟨hp, hr, Or.inr ?_⟩
      rw [den_cat, den_wrap, loop_spec] at hd
      obtain ⟨a, bc, rfl, ha, b, c, rfl, hb, hc⟩ := hd
      exact ⟨a, b ++ c, rfl, ⟨l1, he, ha⟩, b, c, rfl, hb, x, he', hc⟩
  · rintro ⟨hp, hr, ⟨l, he, hd⟩ | ⟨a, bc, rfl, ⟨l1, he, ha⟩, b, c, rfl, hb, x, he', hc⟩⟩
    · exact ⟨l, ⟨hp, hr, Or.inl he⟩, hd⟩
    · refine ⟨_, ⟨hp, hr, Or.inr ⟨l1, x, he, he', rfl⟩⟩, ?_⟩
      rw [den_cat, den_wrap, loop_spec]
      exact ⟨a, b ++ c, rfl, ha, b, c, rfl, hb, hc⟩

/-- every edge with a non-empty language joins two states of the list -/
def SInv (states : List τ) (E : τ → τ → Lg) : Prop :=
  ∀ p r u, E p r u → p ∈ states ∧ r ∈ states

theorem orEdges_spec' {states : List τ} {es : Edges τ} (hI : SInv states (EL es)) (p r : τ)
    (u : List String) : EL (orEdges states es) p r u ↔ EL es p r u := by
  rw [orEdges_spec]
  exact ⟨fun h => h.2, fun h => ⟨(hI _ _ _ h).1, h⟩⟩

theorem removeState_spec {states : List τ} {es : Edges τ} (hI : SInv states (EL es)) (q p r : τ)
    (u : List String) :
    EL (removeState states es q).2 p r u ↔ Eelim (EL es) q p r u := by
  rw [removeState_eq]
  dsimp only
  rw [orEdges_spec, elimEdges_spec]
  constructor
  · exact fun h => h.2
  · intro h
    refine ⟨?_, h⟩
    obtain ⟨hp, _, he | ⟨a, _, _, ha, _⟩⟩ := h
    · exact List.mem_filter.mpr ⟨(hI _ _ _ he).1, by simpa using hp⟩
    · exact List.mem_filter.mpr ⟨(hI _ _ _ ha).1, by simpa using hp⟩

theorem removeState_inv {states : List τ} {es : Edges τ} (hI : SInv states (EL es)) (q : τ) :
    SInv (removeState states es q).1 (EL (removeState states es q).2) := by
  intro p r u h
  have h' := (removeState_spec hI q p r u).mp h
  rw [removeState_eq]
  dsimp only
  obtain ⟨hp, hr, he | ⟨a, _, _, ha, _, c, _, _, hc⟩⟩ := h'
  · exact ⟨List.mem_filter.mpr ⟨(hI _ _ _ he).1, by simpa using hp⟩,
      List.mem_filter.mpr ⟨(hI _ _ _ he).2, by simpa using hr⟩⟩
  · exact ⟨List.mem_filter.mpr ⟨(hI _ _ _ ha).1, by simpa using hp⟩,
      List.mem_filter.mpr ⟨(hI _ _ _ hc).2, by simpa using hr⟩⟩

theorem fold_spec (vs : List τ) : ∀ (states : List τ) (es : Edges τ), SInv states (EL es) →
    (vs.foldl (fun st q => removeState st.1 st.2 q) (states, es)).1 = states.filter (· ∉ vs) ∧
    SInv (vs.foldl (fun st q => removeState st.1 st.2 q) (states, es)).1
      (EL (vs.foldl (fun st q => removeState st.1 st.2 q) (states, es)).2) ∧
    ∀ p s u, p ∉ vs → s ∉ vs →
      (LRun (EL (vs.foldl (fun st q => removeState st.1 st.2 q) (states, es)).2) p u s ↔
        LRun (EL es) p u s) := by
  induction vs with
  | nil =>
    intro states es hI
    refine ⟨?_, hI, fun _ _ _ _ _ => Iff.rfl⟩
    exact (List.filter_eq_self.mpr (by simp)).symm
  | cons q vs ih =>
    intro states es hI
    rw [List.foldl_cons]
    obtain ⟨h1, h2, h3⟩ := ih (removeState states es q).1 (removeState states es q).2
      (removeState_inv hI q)
    refine ⟨?_, h2, ?_⟩
    · rw [h1, removeState_eq]
      dsimp only
      rw [List.filter_filter]
      congr 1
      funext x
      simp only [List.mem_cons, not_or, Bool.decide_and, ne_eq, decide_not]
      rw [Bool.and_comm]
    · intro p s u hp hs
      simp only [List.mem_cons, not_or] at hp hs
      rw [h3 p s u hp.2 hs.2, LRun.congr (removeState_spec hI q), elim_iff _ _ hp.1 hs.1]

theorem getD_ne (o : Option Rx) (u : List String) (hu : u ≠ []) :
    Denote (o.getD .eps) u ↔ ODen o u := by
  cases o with
  | none => simp [Leps, Lempty, hu]
  | some r => simp

theorem simple_spec (es : Edges τ) (s f : τ)
    (hE : ∀ p r u, EL es p r u → (p = s ∨ p = f) ∧ (r = s ∨ r = f)) (u : List String) :
    ODen (simple es s f) u ↔ LRun (EL es) s u f := by
  unfold simple
  by_cases hsf : s = f
  · subst hsf
    rw [if_pos rfl, one_state (EL es) s (fun p r u h => by simpa using hE p r u h), ← labelOf_spec]
    cases labelOf es s s with
    | none => simp
    | some l =>
      by_cases hl : l = .eps
      · subst hl; simp
      · simp [hl]
  · rw [if_neg hsf, regexSub_spec, two_state (EL es) s f hsf hE, ← labelOf_spec, ← labelOf_spec,
      ← labelOf_spec, ← labelOf_spec]
    unfold twoLang
    have h1 : LStar (Denote ((labelOf es f f).getD .eps)) = LStar (ODen (labelOf es f f)) :=
      LStar_congr_ne (getD_ne _)
    rw [h1]
    have h2 : ∀ T : Lg, LStar (Lalt (Denote ((labelOf es s s).getD .eps)) T) =
        LStar (Lalt (ODen (labelOf es s s)) T) := by
      intro T
      apply LStar_congr_ne
      intro u hu
      simp only [Lalt, getD_ne _ u hu]
    rw [h2]

theorem regexFor_spec (states : List τ) (es : Edges τ) (start final : τ) (order : List τ)
    (hI : SInv states (EL es)) (u : List String) :
    ODen (regexFor states es start final order) u ↔ LRun (EL es) start u final := by
  unfold regexFor
  dsimp only
  generalize hA : (order.filter fun q => q ∈ states ∧ q ≠ start ∧ q ≠ final).eraseDups = A
  generalize hvs : A ++ states.filter (fun q => q ≠ start ∧ q ≠ final ∧ q ∉ A) = vs
  have hA' : ∀ x ∈ A, x ≠ start ∧ x ≠ final := by
    intro x hx
    rw [← hA, List.mem_eraseDups, List.mem_filter] at hx
    have := hx.2
    simp only [Bool.decide_and, Bool.and_eq_true, decide_eq_true_eq] at this
    exact ⟨this.2.1, this.2.2⟩
  have hv1 : ∀ x ∈ vs, x ≠ start ∧ x ≠ final := by
    intro x hx
    rw [← hvs, List.mem_append] at hx
    rcases hx with hx | hx
    · exact hA' x hx
    · rw [List.mem_filter] at hx
      have := hx.2
      simp only [Bool.decide_and, Bool.and_eq_true, decide_eq_true_eq] at this
      exact ⟨this.1, this.2.1⟩
  have hv2 : ∀ x ∈ states, x ≠ start → x ≠ final → x ∈ vs := by
    intro x hx h1 h2
    rw [← hvs, List.mem_append]
    by_cases hxA : x ∈ A
    · exact Or.inl hxA
    · exact Or.inr (List.mem_filter.mpr ⟨hx, by simp [h1, h2, hxA]⟩)
  have hI0 : SInv states (EL (orEdges states es)) := by
    intro p r u h
    exact hI p r u ((orEdges_spec' hI p r u).mp h)
  obtain ⟨h1, h2, h3⟩ := fold_spec vs states (orEdges states es) hI0
  rw [simple_spec]
  · rw [h3 start final u (fun h => (hv1 _ h).1 rfl) (fun h => (hv1 _ h).2 rfl)]
    exact LRun.congr (orEdges_spec' hI)
  · intro p r u h
    obtain ⟨hp, hr⟩ := h2 p r u h
    rw [h1, List.mem_filter] at hp hr
    have key : ∀ x, x ∈ states → x ∉ vs → x = start ∨ x = final := by
      intro x hx hxv
      by_cases h1 : x = start
      · exact Or.inl h1
      · by_cases h2 : x = final
        · exact Or.inr h2
        · exact absurd (hv2 x hx h1 h2) hxv
    exact ⟨key p hp.1 (by simpa using hp.2), key r hr.1 (by simpa using hr.2)⟩

end Model

/-! ### the initial graph of an automaton -/
section Automaton
variable {σ : Type} [DecidableEq σ]

def lab (symName : Nat → String) : Option Nat → Rx
  | none => .eps
  | some a => .sym (symName a)

def baseEdges (A : ENFA σ) (symName : Nat → String) : Edges (Option σ) :=
  A.delta.eraseDups.map fun t => (some t.1, lab symName t.2.1, some t.2.2)

theorem toGraph_eq (A : ENFA σ) (symName : Nat → String) :
    A.toGraph symName =
      match A.starts.eraseDups with
      | [] => (A.states.map some, baseEdges A symName, none)
      | [s] => (A.states.map some, baseEdges A symName, some (some s))
      | ss => (A.states.map some ++ [none],
          baseEdges A symName ++ ss.map (fun s => (none, Rx.eps, some s)), some none) := by
  rfl

theorem mem_baseEdges (A : ENFA σ) (symName : Nat → String) (x : Option σ) (l : Rx)
    (r : Option σ) :
    (x, l, r) ∈ baseEdges A symName ↔
      ∃ p a r', x = some p ∧ r = some r' ∧ l = lab symName a ∧ (p, a, r') ∈ A.delta := by
  unfold baseEdges
  simp only [List.mem_map, List.mem_eraseDups, Prod.mk.injEq, Prod.exists]
  constructor
  · rintro ⟨p, a, r', h, rfl, rfl, rfl⟩
    exact ⟨p, a, r', rfl, rfl, rfl, h⟩
  · rintro ⟨p, a, r', rfl, rfl, rfl, h⟩
    exact ⟨p, a, r', h, rfl, rfl, rfl⟩

omit [DecidableEq σ] in
theorem graph_run_fwd (A : ENFA σ) (symName : Nat → String) (es : Edges (Option σ))
    (H : ∀ p l r, (some p, l, r) ∈ es →
      ∃ a r', r = some r' ∧ l = lab symName a ∧ (p, a, r') ∈ A.delta)
    {x y : Option σ} {u : List String} (h : LRun (EL es) x u y) :
    ∀ p f, x = some p → y = some f → ∃ w, u = w.map symName ∧ A.Run p w f := by
  induction h with
  | nil x =>
    intro p f hp hf
    rw [hp] at hf
    cases hf
    exact ⟨[], rfl, .nil _⟩
  | @step x r y a v he _ ih =>
    intro p f hp hf
    subst hp
    obtain ⟨l, hl, hd⟩ := he
    obtain ⟨c, r', rfl, rfl, hmem⟩ := H _ _ _ hl
    obtain ⟨w, rfl, hw⟩ := ih r' f rfl hf
    cases c with
    | none =>
      have : a = [] := by simpa [lab, Leps] using hd
      subst this
      exact ⟨w, rfl, .eps hmem hw⟩
    | some c =>
      have : a = [symName c] := (Rx.Lem.sym_denote _ _).mp hd
      subst this
      exact ⟨c :: w, rfl, .step hmem hw⟩

omit [DecidableEq σ] in
theorem graph_run_bwd (A : ENFA σ) (symName : Nat → String) (es : Edges (Option σ))
    (H : ∀ p a r, (p, a, r) ∈ A.delta → (some p, lab symName a, some r) ∈ es)
    {p f : σ} {w : List Nat} (h : A.Run p w f) :
    LRun (EL es) (some p) (w.map symName) (some f) := by
  induction h with
  | nil => exact .nil _
  | eps hmem _ ih =>
    have := LRun.step (E := EL es) ⟨_, H _ _ _ hmem, Rx.Denote.eps⟩ ih
    simpa using this
  | @step q r s a w hmem _ ih =>
    have := LRun.step (E := EL es) ⟨_, H _ _ _ hmem, Rx.Denote.sym (symName a)⟩ ih
    simpa using this

theorem toGraph_spec (A : ENFA σ) (hA : A.WF) (symName : Nat → String)
    (sts : List (Option σ)) (es : Edges (Option σ)) (start : Option (Option σ))
    (hg : A.toGraph symName = (sts, es, start)) :
    (start = none → ∀ s, s ∉ A.starts) ∧
    (∀ st, start = some st → SInv sts (EL es) ∧ ∀ f u, LRun (EL es) st u (some f) ↔
        ∃ w, u = w.map symName ∧ ∃ s ∈ A.starts, A.Run s w f) := by
  have hbase : ∀ x l r, (x, l, r) ∈ baseEdges A symName →
      x ∈ A.states.map some ∧ r ∈ A.states.map some := by
    intro x l r h
    obtain ⟨p, a, r', rfl, rfl, rfl, hm⟩ := (mem_baseEdges A symName x l r).mp h
    exact ⟨List.mem_map.mpr ⟨p, hA.delta_src _ hm, rfl⟩,
      List.mem_map.mpr ⟨r', hA.delta_dst _ hm, rfl⟩⟩
  have hstarts : ∀ s, s ∈ A.starts ↔ s ∈ A.starts.eraseDups := fun s => List.mem_eraseDups.symm
  rw [toGraph_eq] at hg
  rcases h0 : A.starts.eraseDups with _ | ⟨s0, _ | ⟨s1, ss'⟩⟩
  · rw [h0] at hg
    simp only [Prod.mk.injEq] at hg
    obtain ⟨rfl, rfl, rfl⟩ := hg
    refine ⟨fun _ s hs => ?_, fun st h => by cases h⟩
    rw [hstarts, h0] at hs
    cases hs
  · rw [h0] at hg
    simp only [Prod.mk.injEq] at hg
    obtain ⟨rfl, rfl, rfl⟩ := hg
    refine ⟨fun h => (by cases h), fun st h => ?_⟩
    cases h
    refine ⟨fun p r u ⟨l, hl, _⟩ => hbase p l r hl, fun f u => ?_⟩
    constructor
    · intro h
      obtain ⟨w, hw, hr⟩ := graph_run_fwd A symName _ (fun p l r h => by
        obtain ⟨p', a, r', hp, rfl, rfl, hm⟩ := (mem_baseEdges A symName _ l r).mp h
        cases hp
        exact ⟨a, r', rfl, rfl, hm⟩) h s0 f rfl rfl
      exact ⟨w, hw, s0, by rw [hstarts, h0]; exact List.mem_singleton.mpr rfl, hr⟩
    · rintro ⟨w, rfl, s, hs, hr⟩
      rw [hstarts, h0, List.mem_singleton] at hs
      subst hs
      exact graph_run_bwd A symName _ (fun p a r hm =>
        (mem_baseEdges A symName _ _ _).mpr ⟨p, a, r, rfl, rfl, rfl, hm⟩) hr
  · rw [h0] at hg
    simp only [Prod.mk.injEq] at hg
    rw [← h0] at hg
    generalize hss : A.starts.eraseDups = ss at hg
    obtain ⟨rfl, rfl, rfl⟩ := hg
    refine ⟨fun h => (by cases h), fun st h => ?_⟩
    cases h
    have hextra : ∀ x l r, (x, l, r) ∈ ss.map (fun s => ((none : Option σ), Rx.eps, some s)) ↔
        x = none ∧ l = .eps ∧ ∃ s ∈ A.starts, r = some s := by
      intro x l r
      simp only [List.mem_map, Prod.mk.injEq, hstarts, hss]
      constructor
      · rintro ⟨s, hs, rfl, rfl, rfl⟩; exact ⟨rfl, rfl, s, hs, rfl⟩
      · rintro ⟨rfl, rfl, s, hs, rfl⟩; exact ⟨s, hs, rfl, rfl, rfl⟩
    have hfwd : ∀ p l r, (some p, l, r) ∈ baseEdges A symName ++
        ss.map (fun s => ((none : Option σ), Rx.eps, some s)) →
        ∃ a r', r = some r' ∧ l = lab symName a ∧ (p, a, r') ∈ A.delta := by
      intro p l r h
      rcases List.mem_append.mp h with h | h
      · obtain ⟨p', a, r', hp, rfl, rfl, hm⟩ := (mem_baseEdges A symName _ l r).mp h
        cases hp
        exact ⟨a, r', rfl, rfl, hm⟩
      · have := ((hextra _ _ _).mp h).1
        cases this
    have hbwd : ∀ p a r, (p, a, r) ∈ A.delta → (some p, lab symName a, some r) ∈
        baseEdges A symName ++ ss.map (fun s => ((none : Option σ), Rx.eps, some s)) := by
      intro p a r hm
      exact List.mem_append_left _
        ((mem_baseEdges A symName _ _ _).mpr ⟨p, a, r, rfl, rfl, rfl, hm⟩)
    refine ⟨?_, fun f u => ?_⟩
    · rintro p r u ⟨l, hl, _⟩
      rcases List.mem_append.mp hl with h | h
      · obtain ⟨h1, h2⟩ := hbase p l r h
        exact ⟨List.mem_append_left _ h1, List.mem_append_left _ h2⟩
      · obtain ⟨rfl, rfl, s, hs, rfl⟩ := (hextra _ _ _).mp h
        exact ⟨by simp, List.mem_append_left _ (List.mem_map.mpr ⟨s, hA.starts_sub s hs, rfl⟩)⟩
    · constructor
      · intro h
        rcases h.inv with ⟨h, _⟩ | ⟨r, a, v, rfl, ⟨l, hl, hd⟩, hr⟩
        · cases h
        · rcases List.mem_append.mp hl with h | h
          · obtain ⟨p', a, r', hp, _⟩ := (mem_baseEdges A symName _ l r).mp h
            cases hp
          · obtain ⟨_, rfl, s, hs, rfl⟩ := (hextra _ _ _).mp h
            have : a = [] := by simpa [Leps] using hd
            subst this
            obtain ⟨w, hw, hrun⟩ := graph_run_fwd A symName _ hfwd hr s f rfl rfl
            exact ⟨w, by simpa using hw, s, hs, hrun⟩
      · rintro ⟨w, rfl, s, hs, hr⟩
        have h1 := graph_run_bwd A symName _ hbwd hr
        have h2 : EL (baseEdges A symName ++ ss.map (fun s => ((none : Option σ), Rx.eps, some s)))
            none (some s) [] :=
          ⟨.eps, List.mem_append_right _ ((hextra _ _ _).mpr ⟨rfl, rfl, s, hs, rfl⟩), .eps⟩
        simpa using LRun.step h2 h1

def altE : List Rx → Rx
  | [] => .empty
  | r :: rs => rs.foldl Rx.alt r

theorem den_altE (xs : List Rx) (u : List String) :
    Denote (altE xs) u ↔ ∃ x ∈ xs, Denote x u := by
  cases xs with
  | nil => simp [altE, Lempty]
  | cons l ls => simp only [altE, den_foldl_alt, List.mem_cons, exists_eq_or_imp]

theorem toRegexRx_lang (A : ENFA σ) (hA : A.WF) (symName : Nat → String)
    (order : σ → List (Option σ)) (u : List String) :
    Rx.Denote (A.toRegexRx symName order) u ↔ ∃ w, u = w.map symName ∧ A.Lang w := by
  unfold ENFA.toRegexRx
  rcases hg : A.toGraph symName with ⟨sts, es, start⟩
  obtain ⟨hnone, hsome⟩ := toGraph_spec A hA symName sts es start hg
  cases start with
  | none =>
    dsimp only
    constructor
    · intro h; simp [Lempty] at h
    · rintro ⟨w, _, s, hs, _⟩; exact absurd hs (hnone rfl s)
  | some st =>
    dsimp only
    obtain ⟨hI, hrun⟩ := hsome st rfl
    change Denote (altE (List.filterMap (fun f => regexFor sts es st (some f) (order f))
      A.finals.eraseDups)) u ↔ _
    rw [den_altE]
    constructor
    · rintro ⟨x, hx, hd⟩
      obtain ⟨f, hf, hfx⟩ := List.mem_filterMap.mp hx
      rw [List.mem_eraseDups] at hf
      have : ODen (regexFor sts es st (some f) (order f)) u := by rw [hfx]; exact hd
      rw [regexFor_spec _ _ _ _ _ hI, hrun] at this
      obtain ⟨w, hw, s, hs, hr⟩ := this
      exact ⟨w, hw, s, hs, f, hf, hr⟩
    · rintro ⟨w, hw, s, hs, f, hf, hr⟩
      have : ODen (regexFor sts es st (some f) (order f)) u := by
        rw [regexFor_spec _ _ _ _ _ hI, hrun]
        exact ⟨w, hw, s, hs, hr⟩
      cases hx : regexFor sts es st (some f) (order f) with
      | none => rw [hx] at this; exact this.elim
      | some x =>
        rw [hx] at this
        exact ⟨x, List.mem_filterMap.mpr ⟨f, List.mem_eraseDups.mpr hf, hx⟩, this⟩

end Automaton

end Lem
end ToRegex
end Pfl
