/-
Completeness of the Earley recogniser (abstract form): if the word is in the language of the
target grammar and the recogniser answers, it answers True.
-/
import Pfl.Proofs.EarleyCompleteLoop
namespace Pfl
namespace Earley
namespace Cmp
open FsDag FsDag.Lem Lem

theorem contains_complete {C : Ctx} (hC : CtxOK C) (hT : TgtOK C) {st0 : Store} {rk0 : Nat → Nat}
    (hw : WFS st0 rk0)
    (hobjs : ∀ k p, C.G.prods[k]? = some p →
      p.feats < st0.length ∧ rk0 p.feats = 2 ∧ GoodObj C st0 k p.feats)
    (hgam : C.G.gammaFeats < st0.length ∧ rk0 C.G.gammaFeats = 2)
    (hsx : SX C.P st0 rk0) (hnv : C.featured = false → NoVal st0)
    (hcov : ∀ k p pr env, C.G.prods[k]? = some p → C.spec[k]? = some pr → C.okEnv k env →
      Cov C st0 p.feats k env)
    (hpth : ∀ k p, C.G.prods[k]? = some p → HasPaths C st0 p.feats k)
    (hgpth : HasPaths C st0 C.G.gammaFeats C.spec.length)
    {d : String} (hd : C.P d) (hL : C.tgt.Lang C.word) {fuel : Nat} {b : Bool}
    (h : contains C.G st0 C.word fuel = some b) : b = true := by
  unfold contains at h
  simp only at h
  -- the initial tables
  have hT0 : Lem.Inv C (Tables.mk st0 (List.replicate (C.word.length + 1) [])
      (List.replicate (C.word.length + 1) [])) rk0 [] := by
    refine ⟨hw, hobjs, ?_, ?_, by simp⟩
    · intro i s hm; rw [colGet_replicate] at hm; simp at hm
    · intro i s hm; unfold procStates at hm; rw [colGet_replicate] at hm; simp at hm
  have hB0 : Base C (Tables.mk st0 (List.replicate (C.word.length + 1) [])
      (List.replicate (C.word.length + 1) [])) rk0 [] := by
    refine ⟨hT0, hsx, hnv, hcov, hpth, ?_, ?_, by simp, ?_, by simp, by simp⟩
    · intro i s hm; rw [colGet_replicate] at hm; simp at hm
    · intro i s hm; unfold procStates at hm; rw [colGet_replicate] at hm; simp at hm
    · intro j e he; rw [colGet_replicate] at he; simp at he
  have hfirst : StOK C st0 rk0 0
      { prod := C.G.prods.length, b := 0, e := 0, dot := 0, fs := C.G.gammaFeats } :=
    ⟨rfl, Nat.le_refl _, hgam.1, hgam.2, by rw [hC.prods_len]; exact Nat.le_refl _, by
      intro pr hpr
      change C.spec[C.G.prods.length]? = some pr at hpr
      rw [hC.prods_len, List.getElem?_eq_none (Nat.le_refl _)] at hpr
      simp at hpr⟩
  have hB1 := pushIfNew_base hB0 hfirst (by rw [hC.prods_len]; exact hgpth)
  have hle1 := pushIfNew_tle C.G (Tables.mk st0 (List.replicate (C.word.length + 1) [])
      (List.replicate (C.word.length + 1) [])) 0
      { prod := C.G.prods.length, b := 0, e := 0, dot := 0, fs := C.G.gammaFeats } (by simp)
  have hnone : C.spec[C.G.prods.length]? = none := by
    rw [hC.prods_len]; exact List.getElem?_eq_none (Nat.le_refl _)
  have hinit := pushIfNew_cov hB0 hd (i := 0)
      (s := { prod := C.G.prods.length, b := 0, e := 0, dot := 0, fs := C.G.gammaFeats })
      (by simp) [] ⟨_, resp_default C.P st0 hd, occ_gamma hnone _ _ _ _⟩
  generalize hT1def : Pfl.Earley.pushIfNew C.G (Tables.mk st0 (List.replicate (C.word.length + 1) [])
      (List.replicate (C.word.length + 1) [])) 0
      { prod := C.G.prods.length, b := 0, e := 0, dot := 0, fs := C.G.gammaFeats } = T1 at *
  have hnodone : ∀ j s, ¬ Done T1 j s := by
    intro j s ⟨h1, h2⟩
    rcases hle1.new j s h1 with h | h
    · unfold procStates at h; rw [colGet_replicate] at h; simp at h
    · exact h2 h
  have hL1 : LI C 0 T1 := by
    refine ⟨fun j hj => by omega, ?_, ?_, ?_, ?_, ?_⟩
    · intro j s _ hs
      rcases hle1.new j s hs with h | h
      · unfold procStates at h; rw [colGet_replicate] at h; simp at h
      · exact h
    · intro j s v hdn; exact absurd hdn (hnodone j s)
    · intro j s t hdn; exact absurd hdn (hnodone j s)
    · intro m e nx c hdn; exact absurd hdn (hnodone m nx)
    · simp only at hinit
      rw [hC.prods_len] at hinit; exact hinit
  cases hc : contains.cols C.G C.word fuel (List.range (C.word.length + 1)) T1 with
  | none => rw [hc] at h; simp at h
  | some T3 =>
    rw [hc] at h
    simp only [Option.some.injEq] at h
    rw [List.range_eq_range'] at hc
    obtain ⟨rk3, hB3, hL3⟩ := cols_spec hC hd fuel (C.word.length + 1) 0 T1 T3 rk0 (by omega)
      hB1 hL1 hc
    obtain ⟨k, pr, env, hk, hst, hid⟩ := ideal_final hT hL
    obtain ⟨s, hs, h1, h2, h3, _⟩ := ideal_covered hC hB3 hL3 _ hid
    simp only at hs h1 h2 h3
    rw [← h]
    rw [List.any_eq_true]
    refine ⟨s, hs, ?_⟩
    obtain ⟨hh, hbody, _⟩ := prodOf_spec hC hk
    have hinc : incomplete C.G s = false := by
      unfold incomplete
      rw [h1, hbody, List.length_map, h3]; simp
    simp only [decide_eq_true_eq, Bool.not_eq_true']
    simp only [hinc, h2, h1, hh, hst, and_self]

end Cmp
end Earley
end Pfl
