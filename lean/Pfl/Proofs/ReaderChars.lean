/-
Character-level lemmas for the regex reader: on texts made of "atoms" (single special characters
or plain symbols) separated by at most one blank, `preProcess` yields the atoms joined by single
blanks and `components` recovers the atoms.
-/
import Pfl.Model.Regex
namespace Pfl.RegexReader.Lem

/-- a single special character -/
def IsSp (a : List Char) : Prop := ∃ c, a = [c] ∧ isSpecialChar c = true
/-- a plain symbol -/
def IsPl (a : List Char) : Prop :=
  a ≠ [] ∧ ∀ c ∈ a, c ≠ ' ' ∧ c ≠ '\\' ∧ isSpecialChar c = false
def Atm (a : List Char) : Prop := IsSp a ∨ IsPl a

theorem special_clean {c : Char} (h : isSpecialChar c = true) : c ≠ ' ' ∧ c ≠ '\\' := by
  simp only [isSpecialChar, List.mem_cons, List.not_mem_nil, or_false, decide_eq_true_eq] at h
  rcases h with rfl | rfl | rfl | rfl | rfl | rfl | rfl <;> decide

theorem Atm.ne_nil {a : List Char} (h : Atm a) : a ≠ [] := by
  rcases h with ⟨c, rfl, _⟩ | ⟨h, _⟩
  · simp
  · exact h

theorem Atm.clean {a : List Char} (h : Atm a) : ∀ c ∈ a, c ≠ ' ' ∧ c ≠ '\\' := by
  rcases h with ⟨c, rfl, hc⟩ | ⟨_, h⟩
  · intro d hd
    simp only [List.mem_cons, List.not_mem_nil, or_false] at hd
    subst hd
    exact special_clean hc
  · intro c hc
    exact ⟨(h c hc).1, (h c hc).2.1⟩

/-- blank-joined text, recursive form -/
def jb : List (List Char) → List Char
  | [] => []
  | [a] => a
  | a :: b :: l => a ++ ' ' :: jb (b :: l)

theorem joinBlank_eq (cs : List (List Char)) : joinBlank cs = jb cs := by
  unfold joinBlank List.intercalate
  induction cs with
  | nil => rfl
  | cons a l ih =>
    cases l with
    | nil => simp [jb]
    | cons b l =>
      simp only [List.intersperse_cons_cons, List.flatten_cons, jb] at ih ⊢
      rw [ih]; simp

/-- `Spaced as t`: the text `t` is the atoms `as` in order, consecutive atoms separated by one blank
or, when one of the two is a special character, possibly by nothing -/
inductive Spaced : List (List Char) → List Char → Prop
  | one (a : List Char) : Spaced [a] a
  | blank (a b : List Char) (l : List (List Char)) (t : List Char) :
      Spaced (b :: l) t → Spaced (a :: b :: l) (a ++ ' ' :: t)
  | glue (a b : List Char) (l : List (List Char)) (t : List Char) :
      Spaced (b :: l) t → (IsSp a ∨ IsSp b) → Spaced (a :: b :: l) (a ++ t)

theorem spaced_jb : ∀ (l : List (List Char)), l ≠ [] → Spaced l (jb l)
  | [], h => absurd rfl h
  | [a], _ => .one a
  | a :: b :: l, _ => .blank a b l _ (spaced_jb (b :: l) (by simp))

/-! ### shape of a spaced text -/

theorem Spaced.head_clean {l : List (List Char)} {t : List Char} (h : Spaced l t)
    (hl : ∀ a ∈ l, Atm a) : ∃ c u, t = c :: u ∧ c ≠ ' ' ∧ c ≠ '\\' := by
  have key : ∀ a : List Char, Atm a → ∀ v, ∃ c u, a ++ v = c :: u ∧ c ≠ ' ' ∧ c ≠ '\\' := by
    intro a ha v
    cases a with
    | nil => exact absurd rfl ha.ne_nil
    | cons c u => exact ⟨c, u ++ v, rfl, ha.clean c (by simp)⟩
  cases h with
  | one => simpa using key _ (hl _ (by simp)) []
  | blank a b l t h => exact key a (hl a (by simp)) _
  | glue a b l t h _ => exact key a (hl a (by simp)) _

theorem Spaced.last_clean {l : List (List Char)} {t : List Char} (h : Spaced l t)
    (hl : ∀ a ∈ l, Atm a) : ∃ u c, t = u ++ [c] ∧ c ≠ ' ' ∧ c ≠ '\\' := by
  induction h with
  | one a =>
    have ha := hl a (by simp)
    refine ⟨a.dropLast, a.getLast ha.ne_nil, (List.dropLast_concat_getLast ha.ne_nil).symm, ?_⟩
    exact ha.clean _ (List.getLast_mem _)
  | blank a b l t h ih =>
    obtain ⟨u, c, rfl, hc⟩ := ih (fun x hx => hl x (by simp [hx]))
    exact ⟨a ++ ' ' :: u, c, by simp, hc⟩
  | glue a b l t h _ ih =>
    obtain ⟨u, c, rfl, hc⟩ := ih (fun x hx => hl x (by simp [hx]))
    exact ⟨a ++ u, c, by simp, hc⟩

theorem Spaced.no_backslash {l : List (List Char)} {t : List Char} (h : Spaced l t)
    (hl : ∀ a ∈ l, Atm a) : ∀ c ∈ t, c ≠ '\\' := by
  induction h with
  | one a => exact fun c hc => ((hl a (by simp)).clean c hc).2
  | blank a b l t h ih =>
    intro c hc
    simp only [List.mem_append, List.mem_cons] at hc
    rcases hc with hc | rfl | hc
    · exact ((hl a (by simp)).clean c hc).2
    · decide
    · exact ih (fun x hx => hl x (by simp [hx])) c hc
  | glue a b l t h _ ih =>
    intro c hc
    simp only [List.mem_append] at hc
    rcases hc with hc | hc
    · exact ((hl a (by simp)).clean c hc).2
    · exact ih (fun x hx => hl x (by simp [hx])) c hc

/-! ### the passes that do nothing -/

theorem stripSpaces_id {t : List Char} (h1 : ∃ c u, t = c :: u ∧ c ≠ ' ')
    (h2 : ∃ u c, t = u ++ [c] ∧ c ≠ ' ') : stripSpaces t = t := by
  obtain ⟨c, u, rfl, hc⟩ := h1
  obtain ⟨u', c', h', hc'⟩ := h2
  unfold stripSpaces
  rw [List.dropWhile_cons_of_neg (by simpa using hc), h']
  simp [List.dropWhile_cons_of_neg, hc']

theorem endsWith_single_false {t u : List Char} {c d : Char} (h : t = u ++ [c]) (hc : c ≠ d) :
    endsWith t [d] = false := by
  subst h
  simp [endsWith, List.isSuffixOf, List.isPrefixOf, Ne.symm hc]

theorem endsWith_two_false {t u : List Char} {c d e : Char} (h : t = u ++ [c]) (hc : c ≠ e) :
    endsWith t [d, e] = false := by
  subst h
  simp [endsWith, List.isSuffixOf, List.isPrefixOf, Ne.symm hc]

theorem squeezeAux_run (a : List Char) (ha : ∀ c ∈ a, c ≠ ' ') (hne : a ≠ []) (b : Bool)
    (rest : List Char) : squeezeAux b (a ++ rest) = a ++ squeezeAux false rest := by
  induction a generalizing b with
  | nil => exact absurd rfl hne
  | cons c u ih =>
    have hc : c ≠ ' ' := ha c (by simp)
    cases u with
    | nil => simp [squeezeAux, hc]
    | cons d u =>
      have := ih (fun x hx => ha x (by simp [hx])) (by simp) false
      simp only [List.cons_append] at this ⊢
      rw [squeezeAux, if_neg hc, this]

theorem Spaced.squeeze_id {l : List (List Char)} {t : List Char} (h : Spaced l t)
    (hl : ∀ a ∈ l, Atm a) : ∀ b, squeezeAux b t = t := by
  induction h with
  | one a =>
    intro b
    have ha := hl a (by simp)
    simpa [squeezeAux] using squeezeAux_run a (fun c hc => (ha.clean c hc).1) ha.ne_nil b []
  | blank a b l t h ih =>
    intro b'
    have ha := hl a (by simp)
    have ih' := ih (fun x hx => hl x (by simp [hx]))
    rw [squeezeAux_run a (fun c hc => (ha.clean c hc).1) ha.ne_nil, squeezeAux]
    simp [ih']
  | glue a b l t h _ ih =>
    intro b'
    have ha := hl a (by simp)
    have ih' := ih (fun x hx => hl x (by simp [hx]))
    rw [squeezeAux_run a (fun c hc => (ha.clean c hc).1) ha.ne_nil, ih']

theorem dupEscapedBlank_id : ∀ (t : List Char), (∀ c ∈ t, c ≠ '\\') → dupEscapedBlank t = t
  | [], _ => by simp [dupEscapedBlank]
  | c :: u, h => by
    have hc : c ≠ '\\' := h c (by simp)
    have ih := dupEscapedBlank_id u (fun x hx => h x (by simp [hx]))
    rw [dupEscapedBlank.eq_2]
    · rw [ih]
    · intro rest hh
      exact absurd hh hc

/-! ### the spacing loop -/

theorem spaceOut_run (a : List Char) (ha : ∀ c ∈ a, isSpecialChar c = false ∧ c ≠ '\\')
    (hne : a ≠ []) (rest : List Char) (first : Bool) (acc : List Char) :
    spaceOut (a ++ rest) first false acc = spaceOut rest false false (a.reverse ++ acc) := by
  induction a generalizing first acc with
  | nil => exact absurd rfl hne
  | cons c u ih =>
    obtain ⟨hc1, hc2⟩ := ha c (by simp)
    have step : ∀ r, spaceOut (c :: r) first false acc = spaceOut r false false (c :: acc) := by
      intro r
      rw [spaceOut]
      simp [hc1, hc2]
    cases u with
    | nil => simpa using step rest
    | cons d u =>
      have := ih (fun x hx => ha x (by simp [hx])) (by simp) false (c :: acc)
      rw [List.cons_append, step, this]
      simp

theorem rev_opt (b : Prop) [Decidable b] :
    (if b then [' '] else ([] : List Char)).reverse = if b then [' '] else [] := by
  split <;> rfl

/-- does a special character get a blank in front? -/
def lead (first : Bool) (acc : List Char) : Bool := !first && acc.head? != some ' '

theorem spaceOut_sp (c : Char) (hc : isSpecialChar c = true) (rest : List Char) (first : Bool)
    (acc : List Char) :
    spaceOut (c :: rest) first false acc =
      spaceOut rest false false
        ((if !rest.isEmpty && rest.head? != some ' ' then [' '] else []) ++
          c :: ((if lead first acc then [' '] else []) ++ acc)) := by
  have h2 := (special_clean hc).2
  rw [spaceOut]
  have e : (!first && acc.head? != some ' ') = lead first acc := rfl
  simp only [hc, h2, Bool.not_false, Bool.and_true, Bool.true_and, decide_false, e]
  cases lead first acc <;> cases (!rest.isEmpty && rest.head? != some ' ') <;> simp

theorem Spaced.spaceOut_eq {l : List (List Char)} {t : List Char} (h : Spaced l t)
    (hl : ∀ a ∈ l, Atm a) : ∀ (first : Bool) (acc : List Char),
      (∀ a, l.head? = some a → IsPl a → lead first acc = false) →
      spaceOut t first false acc =
        acc.reverse ++ (if lead first acc then [' '] else []) ++ jb l := by
  have plrun : ∀ a, IsPl a → ∀ c ∈ a, isSpecialChar c = false ∧ c ≠ '\\' :=
    fun a ha c hc => ⟨(ha.2 c hc).2.2, (ha.2 c hc).2.1⟩
  induction h with
  | one a =>
    intro first acc hpl
    rcases hl a (by simp) with ⟨c, rfl, hc⟩ | ha
    · rw [spaceOut_sp c hc]
      simp [spaceOut, jb, rev_opt]
    · rw [← List.append_nil a, spaceOut_run a (plrun a ha) ha.1, hpl a rfl ha]
      simp [spaceOut, jb]
  | blank a b l t h ih =>
    intro first acc hpl
    have ih' := ih (fun x hx => hl x (by simp [hx]))
    rcases hl a (by simp) with ⟨c, rfl, hc⟩ | ha
    · rw [List.singleton_append, spaceOut_sp c hc]
      have : spaceOut (' ' :: t) false false
          (c :: ((if lead first acc then [' '] else []) ++ acc)) =
          spaceOut t false false (' ' :: c :: ((if lead first acc then [' '] else []) ++ acc)) := by
        have := spaceOut_run [' '] (by simp [isSpecialChar]) (by simp) t false
          (c :: ((if lead first acc then [' '] else []) ++ acc))
        simpa using this
      simp only [List.isEmpty_cons, Bool.not_false, List.head?_cons, bne_self_eq_false,
        Bool.and_false, Bool.false_eq_true, ↓reduceIte, List.nil_append]
      rw [this, ih' _ _ (by simp [lead])]
      simp [lead, jb, rev_opt]
    · have : a ++ ' ' :: t = (a ++ [' ']) ++ t := by simp
      rw [this, spaceOut_run (a ++ [' ']) (by
        intro c hc
        simp only [List.mem_append, List.mem_cons, List.not_mem_nil, or_false] at hc
        rcases hc with hc | rfl
        · exact plrun a ha c hc
        · simp [isSpecialChar]) (by simp), ih' _ _ (by simp [lead]), hpl a rfl ha]
      simp [lead, jb]
  | glue a b l t h hsp ih =>
    intro first acc hpl
    have hl' : ∀ x ∈ b :: l, Atm x := fun x hx => hl x (by simp [hx])
    have ih' := ih hl'
    obtain ⟨d, u, rfl, hd, _⟩ := h.head_clean hl'
    rcases hl a (by simp) with ⟨c, rfl, hc⟩ | ha
    · rw [List.singleton_append, spaceOut_sp c hc]
      rw [ih' _ _ (by simp [lead, hd])]
      simp [lead, jb, hd, rev_opt]
    · have hb : IsSp b := by
        rcases hsp with ⟨c, rfl, hc⟩ | hb
        · have := (ha.2 c (by simp)).2.2
          rw [hc] at this; exact absurd this (by simp)
        · exact hb
      have hbpl : ¬ IsPl b := by
        obtain ⟨c, rfl, hc⟩ := hb
        intro hp
        have := (hp.2 c (by simp)).2.2
        rw [hc] at this; exact absurd this (by simp)
      obtain ⟨a', c', rfl⟩ : ∃ a' c', a = a' ++ [c'] :=
        ⟨a.dropLast, a.getLast ha.1, (List.dropLast_concat_getLast ha.1).symm⟩
      have hc' : c' ≠ ' ' := (ha.2 c' (by simp)).1
      rw [spaceOut_run _ (plrun _ ha) ha.1, ih' _ _ (fun x hx hp => by
        simp only [List.head?_cons, Option.some.injEq] at hx
        subst hx; exact absurd hp hbpl), hpl _ rfl ha]
      simp [lead, jb, hc']

/-! ### splitting -/

theorem splitBlank_go_run (a : List Char) (ha : ∀ c ∈ a, c ≠ ' ') (rest cur : List Char) :
    splitBlank.go (a ++ rest) cur = splitBlank.go rest (a.reverse ++ cur) := by
  induction a generalizing cur with
  | nil => rfl
  | cons c u ih =>
    have hc : c ≠ ' ' := ha c (by simp)
    rw [List.cons_append, splitBlank.go.eq_3 _ _ _ (fun h => hc h),
      ih (fun x hx => ha x (by simp [hx]))]
    simp

theorem splitBlank_go_jb : ∀ (l : List (List Char)), l ≠ [] → (∀ a ∈ l, ∀ c ∈ a, c ≠ ' ') →
    ∀ cur, splitBlank.go (jb l) cur =
      (cur.reverse ++ l.headD []) :: l.tail
  | [], h, _ => absurd rfl h
  | [a], _, hl => by
    intro cur
    have := splitBlank_go_run a (hl a (by simp)) [] cur
    simp only [List.append_nil] at this
    simp [jb, this, splitBlank.go]
  | a :: b :: l, _, hl => by
    intro cur
    have ih := splitBlank_go_jb (b :: l) (by simp) (fun x hx => hl x (by simp [hx])) []
    rw [jb, splitBlank_go_run a (hl a (by simp)), splitBlank.go, ih]
    simp

theorem splitBlank_jb (l : List (List Char)) (h : l ≠ []) (hl : ∀ a ∈ l, ∀ c ∈ a, c ≠ ' ') :
    splitBlank (jb l) = l := by
  unfold splitBlank
  rw [splitBlank_go_jb l h hl]
  cases l with
  | nil => exact absurd rfl h
  | cons a l => simp

theorem filter_nonempty_id (l : List (List Char)) (hl : ∀ a ∈ l, a ≠ []) :
    l.filter (!·.isEmpty) = l := by
  rw [List.filter_eq_self]
  intro a ha
  simp [hl a ha]

theorem components_jb (l : List (List Char)) (h : l ≠ []) (hl : ∀ a ∈ l, Atm a) :
    components (jb l) = l := by
  unfold components
  rw [splitBlank_jb l h (fun a ha c hc => ((hl a ha).clean c hc).1)]
  have hmap : l.map (fun sub =>
      if endsWith sub ['\\'] && !endsWith sub ['\\', '\\'] then sub ++ [' '] else sub) = l := by
    conv => rhs; rw [← List.map_id l]
    apply List.map_congr_left
    intro a ha
    have hne := (hl a ha).ne_nil
    have hlast := (hl a ha).clean _ (List.getLast_mem hne)
    rw [endsWith_single_false (List.dropLast_concat_getLast hne).symm hlast.2]
    simp
  have hlast : (l.getLast?.map (·.isEmpty)).getD false = false := by
    rw [List.getLast?_eq_some_getLast h]
    simpa using (hl _ (List.getLast_mem h)).ne_nil
  simp only [hmap, hlast, Bool.and_false, Bool.false_eq_true, ↓reduceIte]
  rw [filter_nonempty_id l (fun a ha => (hl a ha).ne_nil)]
  cases l with
  | nil => exact absurd rfl h
  | cons a l => simp

/-! ### the whole pre-processing -/

theorem Spaced.preProcess_eq {l : List (List Char)} {t : List Char} (h : Spaced l t)
    (hl : ∀ a ∈ l, Atm a) : preProcess t = jb l := by
  obtain ⟨c, u, e1, hc1, _⟩ := h.head_clean hl
  obtain ⟨u', c', e2, hc2, hc3⟩ := h.last_clean hl
  unfold preProcess
  simp only
  rw [stripSpaces_id ⟨c, u, e1, hc1⟩ ⟨u', c', e2, hc2⟩, endsWith_single_false e2 hc3]
  simp only [Bool.false_and, Bool.false_eq_true, ↓reduceIte]
  rw [squeeze, h.squeeze_id hl, dupEscapedBlank_id t (h.no_backslash hl),
    endsWith_two_false e2 hc2]
  simp only [Bool.false_eq_true, ↓reduceIte]
  rw [h.spaceOut_eq hl true [] (by simp [lead])]
  simp [lead]

theorem Spaced.components_eq {l : List (List Char)} {t : List Char} (h : Spaced l t)
    (hl : ∀ a ∈ l, Atm a) : components (preProcess t) = l := by
  rw [h.preProcess_eq hl]
  apply components_jb l _ hl
  cases h <;> simp

/-- (B) re-entry: blank-joined atoms are read back as the same atoms -/
theorem components_joinBlank (l : List (List Char)) (h : l ≠ []) (hl : ∀ a ∈ l, Atm a) :
    components (preProcess (joinBlank l)) = l := by
  rw [joinBlank_eq]
  exact (spaced_jb l h).components_eq hl

/-! ### (A) the printed text of a tree -/

/-- plain symbol (same as `PlainSym` of the statement) -/
def PSym (s : String) : Prop := IsPl s.toList ∧ s ≠ "epsilon"

/-- same as `PlainRx` of the statement -/
def PRx : Rx → Prop
  | .empty => False
  | .eps => True
  | .sym s => PSym s
  | .cat a b => PRx a ∧ PRx b
  | .alt a b => PRx a ∧ PRx b
  | .star a => PRx a

/-- the token view of the printed text -/
def toks : Rx → List (List Char)
  | .empty => []
  | .eps => [['$']]
  | .sym s => [s.toList]
  | .cat a b => [['(']] ++ toks a ++ [['.']] ++ toks b ++ [[')']]
  | .alt a b => [['(']] ++ toks a ++ [['|']] ++ toks b ++ [[')']]
  | .star a => [['(']] ++ toks a ++ [[')'], ['*']]

theorem Spaced.ne_nil {l : List (List Char)} {t : List Char} (h : Spaced l t) : l ≠ [] := by
  cases h <;> simp

theorem Spaced.cons_sp {l : List (List Char)} {t : List Char} (h : Spaced l t) (c : Char)
    (hc : isSpecialChar c = true) : Spaced ([c] :: l) (c :: t) := by
  cases l with
  | nil => exact absurd rfl h.ne_nil
  | cons b l => exact .glue [c] b l t h (Or.inl ⟨c, rfl, hc⟩)

theorem Spaced.snoc_sp {l : List (List Char)} {t : List Char} (h : Spaced l t) (c : Char)
    (hc : isSpecialChar c = true) : Spaced (l ++ [[c]]) (t ++ [c]) := by
  induction h with
  | one a => exact .glue a [c] [] [c] (.one [c]) (Or.inr ⟨c, rfl, hc⟩)
  | blank a b l t h ih =>
    have := Spaced.blank a b (l ++ [[c]]) (t ++ [c]) ih
    simpa using this
  | glue a b l t h hsp ih =>
    have := Spaced.glue a b (l ++ [[c]]) (t ++ [c]) ih hsp
    simpa using this

theorem Spaced.mid_sp {l l' : List (List Char)} {t t' : List Char} (h : Spaced l t)
    (h' : Spaced l' t') (c : Char) (hc : isSpecialChar c = true) :
    Spaced (l ++ [c] :: l') (t ++ c :: t') := by
  induction h with
  | one a => exact .glue a [c] l' (c :: t') (h'.cons_sp c hc) (Or.inr ⟨c, rfl, hc⟩)
  | blank a b l t h ih =>
    have := Spaced.blank a b (l ++ [c] :: l') (t ++ c :: t') ih
    simpa using this
  | glue a b l t h hsp ih =>
    have := Spaced.glue a b (l ++ [c] :: l') (t ++ c :: t') ih hsp
    simpa using this

theorem PSym.repr {s : String} (h : PSym s) : Rx.repr' (.sym s) = s := by
  have hns : ∀ c, s.toList = [c] → isSpecialChar c = false := by
    intro c hc
    exact (h.1.2 c (by simp [hc])).2.2
  have : s ∉ [".", "|", "+", "*", "epsilon", "$", "(", ")"] := by
    simp only [List.mem_cons, List.not_mem_nil, or_false]
    rintro (rfl | rfl | rfl | rfl | rfl | rfl | rfl | rfl)
    · exact absurd (hns '.' (by simp)) (by decide)
    · exact absurd (hns '|' (by simp)) (by decide)
    · exact absurd (hns '+' (by simp)) (by decide)
    · exact absurd (hns '*' (by simp)) (by decide)
    · exact h.2 rfl
    · exact absurd (hns '$' (by simp)) (by decide)
    · exact absurd (hns '(' (by simp)) (by decide)
    · exact absurd (hns ')' (by simp)) (by decide)
  simp [Rx.repr', this]

theorem spaced_repr : ∀ (r : Rx), PRx r → Spaced (toks r) (Rx.repr' r).toList
  | .empty, h => absurd h (by simp [PRx])
  | .eps, _ => by simpa [toks, Rx.repr'] using Spaced.one ['$']
  | .sym s, h => by
    rw [PSym.repr h]
    exact .one _
  | .cat a b, h => by
    have ha := spaced_repr a h.1
    have hb := spaced_repr b h.2
    have := ((ha.mid_sp hb '.' (by decide)).snoc_sp ')' (by decide)).cons_sp '(' (by decide)
    simpa [toks, Rx.repr'] using this
  | .alt a b, h => by
    have ha := spaced_repr a h.1
    have hb := spaced_repr b h.2
    have := ((ha.mid_sp hb '|' (by decide)).snoc_sp ')' (by decide)).cons_sp '(' (by decide)
    simpa [toks, Rx.repr'] using this
  | .star a, h => by
    have ha := spaced_repr a h
    have := ((ha.snoc_sp ')' (by decide)).snoc_sp '*' (by decide)).cons_sp '(' (by decide)
    simpa [toks, Rx.repr'] using this

theorem toks_atm : ∀ (r : Rx), PRx r → ∀ a ∈ toks r, Atm a
  | .empty, h => absurd h (by simp [PRx])
  | .eps, _ => by
    intro a ha
    simp only [toks, List.mem_cons, List.not_mem_nil, or_false] at ha
    subst ha; exact Or.inl ⟨'$', rfl, by decide⟩
  | .sym s, h => by
    intro a ha
    simp only [toks, List.mem_cons, List.not_mem_nil, or_false] at ha
    subst ha; exact Or.inr h.1
  | .cat a b, h => by
    intro x hx
    simp only [toks, List.mem_append, List.mem_cons, List.not_mem_nil, or_false] at hx
    rcases hx with (((rfl | hx) | rfl) | hx) | rfl
    · exact Or.inl ⟨_, rfl, by decide⟩
    · exact toks_atm a h.1 x hx
    · exact Or.inl ⟨_, rfl, by decide⟩
    · exact toks_atm b h.2 x hx
    · exact Or.inl ⟨_, rfl, by decide⟩
  | .alt a b, h => by
    intro x hx
    simp only [toks, List.mem_append, List.mem_cons, List.not_mem_nil, or_false] at hx
    rcases hx with (((rfl | hx) | rfl) | hx) | rfl
    · exact Or.inl ⟨_, rfl, by decide⟩
    · exact toks_atm a h.1 x hx
    · exact Or.inl ⟨_, rfl, by decide⟩
    · exact toks_atm b h.2 x hx
    · exact Or.inl ⟨_, rfl, by decide⟩
  | .star a, h => by
    intro x hx
    simp only [toks, List.mem_append, List.mem_cons, List.not_mem_nil, or_false] at hx
    rcases hx with (rfl | hx) | rfl | rfl
    · exact Or.inl ⟨_, rfl, by decide⟩
    · exact toks_atm a h x hx
    · exact Or.inl ⟨_, rfl, by decide⟩
    · exact Or.inl ⟨_, rfl, by decide⟩

/-- (A) the components of the printed text are the tokens -/
theorem components_repr (r : Rx) (h : PRx r) :
    components (preProcess (Rx.repr' r).toList) = toks r :=
  (spaced_repr r h).components_eq (toks_atm r h)

end Pfl.RegexReader.Lem
