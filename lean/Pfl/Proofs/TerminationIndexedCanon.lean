/-
Termination of the library's marking loop (`Pfl/Model/IndexedMark.lean`), part 1: canonical sets.

The sets of the table are canonical lists (`normS` / `unionS`): strictly increasing, members among
the non-terminals.  Two canonical lists with the same members are equal, hence a duplicate-free
list of canonical sets over `N` has at most `2 ^ |N|` entries, and the table as a whole at most
`|N| * 2 ^ |N|` sets.  A table that gained a set has a strictly larger total.
-/
import Pfl.Proofs.TerminationBase
import Pfl.Proofs.IndexedMarkClosed
import Mathlib.Data.String.Basic
import Mathlib.Data.List.Sublists
import Mathlib.Data.List.Nodup

namespace Pfl.Term
open Pfl Pfl.IG Pfl.IG.Lib Pfl.IG.LibP Pfl.IG.Lem

/-! ### canonical lists -/

/-- canonical form of a set of non-terminals over `N`: strictly increasing, members in `N` -/
def Canon (N : List String) (E : SetS) : Prop := E.Pairwise (· < ·) ∧ ∀ x ∈ E, x ∈ N

theorem insertS_sorted (x : String) : ∀ (l : List String), l.Pairwise (· < ·) →
    (insertS x l).Pairwise (· < ·) := by
  intro l
  induction l with
  | nil => intro _; simp [insertS]
  | cons y ys ih =>
    intro h
    rw [List.pairwise_cons] at h
    unfold insertS
    split
    · exact List.pairwise_cons.mpr h
    · rename_i hxy
      split
      · rename_i hlt
        refine List.pairwise_cons.mpr ⟨?_, List.pairwise_cons.mpr h⟩
        intro z hz
        rcases List.mem_cons.mp hz with rfl | hz
        · exact hlt
        · exact lt_trans hlt (h.1 z hz)
      · rename_i hnlt
        refine List.pairwise_cons.mpr ⟨?_, ih h.2⟩
        intro z hz
        rcases mem_insertS.mp hz with rfl | hz
        · rcases lt_trichotomy z y with h1 | h1 | h1
          · exact absurd h1 hnlt
          · exact absurd h1 hxy
          · exact h1
        · exact h.1 z hz

theorem normS_sorted (l : List String) : (normS l).Pairwise (· < ·) := by
  unfold normS
  induction l with
  | nil => exact List.Pairwise.nil
  | cons x l ih => rw [List.foldr_cons]; exact insertS_sorted x _ ih

theorem canon_nil (N : List String) : Canon N [] := ⟨List.Pairwise.nil, fun _ h => by cases h⟩

theorem canon_single {N : List String} {a : String} (ha : a ∈ N) : Canon N [a] :=
  ⟨List.pairwise_singleton _ _, fun x hx => by
    simp only [List.mem_singleton] at hx; subst hx; exact ha⟩

theorem canon_unionS {N : List String} {a b : List String} (ha : ∀ x ∈ a, x ∈ N)
    (hb : ∀ x ∈ b, x ∈ N) : Canon N (unionS a b) := by
  refine ⟨normS_sorted _, ?_⟩
  intro x hx
  rcases mem_unionS.mp hx with h | h
  · exact ha x h
  · exact hb x h

theorem canon_dupTemp {N : List String} {E0 E1 : SetS} (h0 : Canon N E0) (h1 : Canon N E1) :
    Canon N (dupTemp E0 E1) := by
  unfold dupTemp
  split
  · exact h1
  · split
    · exact h0
    · exact canon_unionS h0.2 h1.2

/-- a canonical list is determined by its members -/
theorem canon_ext {N : List String} {E E' : SetS} (h : Canon N E) (h' : Canon N E')
    (hm : ∀ x, x ∈ E ↔ x ∈ E') : E = E' := by
  have hnd : E.Nodup := h.1.imp (fun hab => ne_of_lt hab)
  have hnd' : E'.Nodup := h'.1.imp (fun hab => ne_of_lt hab)
  have hp : E.Perm E' := (List.perm_ext_iff_of_nodup hnd hnd').mpr hm
  exact hp.eq_of_pairwise (fun a b _ _ hab hba => absurd hba (lt_asymm hab)) h.1 h'.1

/-- at most `2 ^ |N|` different canonical sets -/
theorem canon_count (N : List String) (l : List SetS) (hnd : l.Nodup)
    (hc : ∀ E ∈ l, Canon N E) : l.length ≤ 2 ^ N.length := by
  have hinj : ∀ E ∈ l, ∀ E' ∈ l, N.filter (· ∈ E) = N.filter (· ∈ E') → E = E' := by
    intro E hE E' hE' heq
    apply canon_ext (hc E hE) (hc E' hE')
    intro x
    constructor
    · intro hx
      have : x ∈ N.filter (· ∈ E) := List.mem_filter.mpr ⟨(hc E hE).2 x hx, by simpa using hx⟩
      rw [heq] at this
      simpa using (List.mem_filter.mp this).2
    · intro hx
      have : x ∈ N.filter (· ∈ E') := List.mem_filter.mpr ⟨(hc E' hE').2 x hx, by simpa using hx⟩
      rw [← heq] at this
      simpa using (List.mem_filter.mp this).2
  have hnd' : (l.map fun E => N.filter (· ∈ E)).Nodup :=
    (List.nodup_map_iff_inj_on hnd).mpr (fun E hE E' hE' h => hinj E hE E' hE' h)
  have hsub : ∀ s ∈ (l.map fun E => N.filter (· ∈ E)), s ∈ N.sublists := by
    intro s hs
    obtain ⟨E, _, rfl⟩ := List.mem_map.mp hs
    exact List.mem_sublists.mpr List.filter_sublist
  have := hnd'.length_le_of_subset hsub
  rwa [List.length_map, List.length_sublists] at this

/-! ### well-formed tables -/

/-- every entry of the table is a duplicate-free list of canonical sets -/
structure WFT (N : List String) (T : Table) : Prop where
  nodup : ∀ a, (get T a).Nodup
  canon : ∀ a E, E ∈ get T a → Canon N E

theorem wft_add {N : List String} {T : Table} (h : WFT N T) (a : String) {E : SetS}
    (hE : Canon N E) : WFT N (add T a E) := by
  refine ⟨?_, ?_⟩
  · intro a'
    unfold add
    split
    · exact h.nodup a'
    · rename_i hm
      rw [get_put]
      split
      · rename_i ha
        subst ha
        rw [List.nodup_append]
        refine ⟨h.nodup _, by simp, ?_⟩
        intro x hx y hy
        simp only [List.mem_singleton] at hy
        subst hy
        rintro rfl
        exact hm hx
      · exact h.nodup a'
  · intro a' E' hE'
    rcases mem_get_add.mp hE' with h' | ⟨_, rfl⟩
    · exact h.canon _ _ h'
    · exact hE

theorem wft_addAll {N : List String} (a : String) (l : List SetS) : ∀ {T : Table}, WFT N T →
    (∀ E ∈ l, Canon N E) → WFT N (addAll T a l) := by
  unfold addAll
  induction l with
  | nil => intro T h _; exact h
  | cons e l ih =>
    intro T h hl
    rw [List.foldl_cons]
    exact ih (wft_add h a (hl e List.mem_cons_self)) (fun E hE => hl E (List.mem_cons_of_mem _ hE))

/-- the number of marked sets -/
def total (N : List String) (T : Table) : Nat := sumOver N fun a => (get T a).length

theorem total_le {N : List String} {T : Table} (h : WFT N T) :
    total N T ≤ N.length * 2 ^ N.length :=
  sumOver_le_mul N _ _ (fun a _ => canon_count N _ (h.nodup a) (h.canon a))

/-- some key of `N` holds a set it did not hold before -/
def Grew (N : List String) (T T' : Table) : Prop :=
  ∃ a ∈ N, ∃ E, E ∈ get T' a ∧ E ∉ get T a

theorem Grew.mono_right {N : List String} {T T1 T2 : Table} (h : Grew N T T1) (hs : Sub T1 T2) :
    Grew N T T2 := by
  obtain ⟨a, ha, E, h1, h2⟩ := h
  exact ⟨a, ha, E, hs a E h1, h2⟩

theorem Grew.mono_left {N : List String} {T T1 T2 : Table} (hs : Sub T T1) (h : Grew N T1 T2) :
    Grew N T T2 := by
  obtain ⟨a, ha, E, h1, h2⟩ := h
  exact ⟨a, ha, E, h1, fun h' => h2 (hs a E h')⟩

theorem total_mono {N : List String} {T T' : Table} (h : WFT N T) (hs : Sub T T') :
    total N T ≤ total N T' :=
  sumOver_le N _ _ (fun a _ => (h.nodup a).length_le_of_subset (fun E hE => hs a E hE))

theorem total_lt {N : List String} {T T' : Table} (h : WFT N T) (hs : Sub T T')
    (hg : Grew N T T') : total N T < total N T' := by
  obtain ⟨a, ha, E, h1, h2⟩ := hg
  refine sumOver_lt N _ _
    (fun a _ => (h.nodup a).length_le_of_subset (fun E hE => hs a E hE)) a ha ?_
  have hnd : (E :: get T a).Nodup := List.nodup_cons.mpr ⟨h2, h.nodup a⟩
  have := hnd.length_le_of_subset (l₂ := get T' a) (by
    intro x hx
    rcases List.mem_cons.mp hx with rfl | hx
    · exact h1
    · exact hs a x hx)
  rw [List.length_cons] at this
  exact this

/-! ### `__init__` -/

theorem initTable_wft (G : IG) : WFT G.nonTerminals (initTable G) := by
  unfold initTable
  refine foldl_inv (WFT G.nonTerminals) _ _ ?_ _ ?_
  · intro T a _ hT
    split
    · exact wft_add hT a (canon_nil _)
    · exact hT
  · refine ⟨?_, ?_⟩
    · intro a
      rw [get_map_single]
      split <;> simp
    · intro a E hE
      rw [get_map_single] at hE
      split at hE
      · rename_i ha
        simp only [List.mem_singleton] at hE
        subst hE
        exact canon_single ha
      · cases hE

theorem total_initTable (G : IG) : G.nonTerminals.length ≤ total G.nonTerminals (initTable G) := by
  have := mul_le_sumOver G.nonTerminals (fun a => (get (initTable G) a).length) 1 (by
    intro a ha
    have : [a] ∈ get (initTable G) a := mem_get_initTable.mpr (Or.inl ⟨ha, rfl⟩)
    exact List.length_pos_of_mem this)
  simpa [total] using this

end Pfl.Term
