/-
Termination of the stack machine of `get_llone_parse_tree`, part 2: the machine itself.

`Done tb l w n r`: started with the symbols `l` on top of ANY stack and the input `w`, the machine
needs exactly `n` steps to either raise NotParsableException (`r = none`) or to pop `l` completely,
having consumed `c` input symbols (`r = some c`).

The key is `descent`: when the variable `v` is expanded under the lookahead `a` by the only
production of its cell, every symbol of the body that can come on top of the stack before any
input is consumed is strictly smaller than `v` in a well-founded order `phi` (first the class
"nullable with `a` in FOLLOW" below the class "`a` in FIRST", then the height of the least
justification).  Hence no variable is expanded twice between two consumed input symbols unless
the first copy has been popped in between, and a run takes at most `parseSteps` steps.
-/
import Pfl.Proofs.LL1TerminationDescent
import Mathlib.Tactic.Ring
import Mathlib.Tactic.Linarith
namespace Pfl
namespace LL1Lib
namespace Term
open CFG Lem

/-! ### single steps of the machine -/

theorem parseLoop_var (tb : List (String × Look × Pfl.Prod)) (fuel : Nat) (v : String)
    (stack : List (Option Sym)) (w : List String) (out : List Pfl.Prod) :
    parseLoop tb (fuel + 1) (some (.var v) :: stack) w out =
      match cell tb v (look w) with
      | [e] => parseLoop tb fuel (e.2.2.2.map some ++ stack) w (e.2.2 :: out)
      | _ => some none := by
  cases w <;> rfl

theorem parseLoop_var_single (tb : List (String × Look × Pfl.Prod)) (fuel : Nat) (v : String)
    (stack : List (Option Sym)) (w : List String) (out : List Pfl.Prod)
    (e : String × Look × Pfl.Prod) (h : cell tb v (look w) = [e]) :
    parseLoop tb (fuel + 1) (some (.var v) :: stack) w out =
      parseLoop tb fuel (e.2.2.2.map some ++ stack) w (e.2.2 :: out) := by
  rw [parseLoop_var, h]

theorem parseLoop_var_fail (tb : List (String × Look × Pfl.Prod)) (fuel : Nat) (v : String)
    (stack : List (Option Sym)) (w : List String) (out : List Pfl.Prod)
    (h : ∀ e, cell tb v (look w) ≠ [e]) :
    parseLoop tb (fuel + 1) (some (.var v) :: stack) w out = some none := by
  rw [parseLoop_var]
  split
  · next e he => exact absurd he (h e)
  · rfl

theorem parseLoop_ter_ok (tb : List (String × Look × Pfl.Prod)) (fuel : Nat) (t : String)
    (stack : List (Option Sym)) (rest : List String) (out : List Pfl.Prod) :
    parseLoop tb (fuel + 1) (some (.ter t) :: stack) (t :: rest) out =
      parseLoop tb fuel stack rest out := by
  simp [parseLoop]

theorem parseLoop_ter_fail (tb : List (String × Look × Pfl.Prod)) (fuel : Nat) (t : String)
    (stack : List (Option Sym)) (w : List String) (out : List Pfl.Prod) (h : w.head? ≠ some t) :
    parseLoop tb (fuel + 1) (some (.ter t) :: stack) w out = some none := by
  cases w with
  | nil => simp [parseLoop]
  | cons a rest =>
    have : a ≠ t := by intro e; apply h; simp [e]
    simp [parseLoop, this]

/-! ### runs on a segment of the stack -/

def Done (tb : List (String × Look × Pfl.Prod)) (l : List Sym) (w : List String) (n : Nat) :
    Option Nat → Prop
  | none => ∀ fuel stack out, parseLoop tb (fuel + n) (l.map some ++ stack) w out = some none
  | some c => ∀ fuel stack out, ∃ out',
      parseLoop tb (fuel + n) (l.map some ++ stack) w out = parseLoop tb fuel stack (w.drop c) out'

theorem done_nil (tb : List (String × Look × Pfl.Prod)) (w : List String) :
    Done tb [] w 0 (some 0) := by
  intro fuel stack out
  exact ⟨out, rfl⟩

theorem done_cons_fail {tb : List (String × Look × Pfl.Prod)} {s : Sym} {w : List String} {n : Nat}
    (l : List Sym) (h : Done tb [s] w n none) : Done tb (s :: l) w n none := by
  intro fuel stack out
  have := h fuel (l.map some ++ stack) out
  simpa using this

theorem done_cons {tb : List (String × Look × Pfl.Prod)} {s : Sym} {l : List Sym} {w : List String}
    {n₁ n₂ c₁ : Nat} {r : Option Nat}
    (h1 : Done tb [s] w n₁ (some c₁)) (h2 : Done tb l (w.drop c₁) n₂ r) :
    Done tb (s :: l) w (n₁ + n₂) (r.map (c₁ + ·)) := by
  cases r with
  | none =>
    intro fuel stack out
    obtain ⟨out', e⟩ := h1 (fuel + n₂) (l.map some ++ stack) out
    have e' : parseLoop tb (fuel + (n₁ + n₂)) ((s :: l).map some ++ stack) w out =
        parseLoop tb (fuel + n₂) (l.map some ++ stack) (w.drop c₁) out' := by
      rw [← e]
      have : fuel + (n₁ + n₂) = fuel + n₂ + n₁ := by omega
      rw [this]; simp
    rw [e']
    exact h2 fuel stack out'
  | some c₂ =>
    intro fuel stack out
    obtain ⟨out', e⟩ := h1 (fuel + n₂) (l.map some ++ stack) out
    have e' : parseLoop tb (fuel + (n₁ + n₂)) ((s :: l).map some ++ stack) w out =
        parseLoop tb (fuel + n₂) (l.map some ++ stack) (w.drop c₁) out' := by
      rw [← e]
      have : fuel + (n₁ + n₂) = fuel + n₂ + n₁ := by omega
      rw [this]; simp
    obtain ⟨out'', e2⟩ := h2 fuel stack out'
    refine ⟨out'', ?_⟩
    rw [e', e2, List.drop_drop]

theorem done_ter_ok (tb : List (String × Look × Pfl.Prod)) (t : String) (rest : List String) :
    Done tb [.ter t] (t :: rest) 1 (some 1) := by
  intro fuel stack out
  exact ⟨out, by simp [parseLoop_ter_ok]⟩

theorem done_ter_fail (tb : List (String × Look × Pfl.Prod)) (t : String) (w : List String)
    (h : w.head? ≠ some t) : Done tb [.ter t] w 1 none := by
  intro fuel stack out
  simp [parseLoop_ter_fail _ _ _ _ _ _ h]

theorem done_var {tb : List (String × Look × Pfl.Prod)} {v : String} {w : List String}
    {e : String × Look × Pfl.Prod} {n : Nat} {r : Option Nat}
    (hc : cell tb v (look w) = [e]) (h : Done tb e.2.2.2 w n r) : Done tb [.var v] w (n + 1) r := by
  cases r with
  | none =>
    intro fuel stack out
    have := h fuel stack (e.2.2 :: out)
    rw [← this]
    exact parseLoop_var_single tb (fuel + n) v stack w out e hc
  | some c =>
    intro fuel stack out
    obtain ⟨out', e'⟩ := h fuel stack (e.2.2 :: out)
    refine ⟨out', ?_⟩
    rw [← e']
    exact parseLoop_var_single tb (fuel + n) v stack w out e hc

theorem done_var_fail (tb : List (String × Look × Pfl.Prod)) (v : String) (w : List String)
    (h : ∀ e, cell tb v (look w) ≠ [e]) : Done tb [.var v] w 1 none := by
  intro fuel stack out
  exact parseLoop_var_fail tb fuel v stack w out h

theorem done_cons_zero {tb : List (String × Look × Pfl.Prod)} {s : Sym} {l : List Sym}
    {w : List String} {n₁ n₂ : Nat} {r : Option Nat}
    (h1 : Done tb [s] w n₁ (some 0)) (h2 : Done tb l w n₂ r) : Done tb (s :: l) w (n₁ + n₂) r := by
  have := done_cons (l := l) (r := r) h1 (by simpa using h2)
  cases r with
  | none => exact this
  | some c => simpa using this

/-! ### the step bound -/

/-- cost of expanding a variable to ε when no variable may repeat on a path: `1 + L + … + L^d` -/
def epsCost (L : Nat) : Nat → Nat
  | 0 => 1
  | d+1 => 1 + L * epsCost L d

theorem epsCost_pos (L d : Nat) : 1 ≤ epsCost L d := by
  cases d <;> simp [epsCost]

theorem epsCost_le_succ (L m : Nat) : epsCost L m ≤ epsCost L (m + 1) := by
  induction m with
  | zero => simp [epsCost]
  | succ m ihm =>
    show 1 + L * epsCost L m ≤ 1 + L * epsCost L (m+1)
    exact Nat.add_le_add_left (Nat.mul_le_mul_left _ ihm) _

theorem epsCost_mono (L : Nat) {d d' : Nat} (h : d ≤ d') : epsCost L d ≤ epsCost L d' := by
  induction h with
  | refl => exact Nat.le_refl _
  | step _ ih => exact le_trans ih (epsCost_le_succ L _)

theorem epsCost_le_G (L V : Nat) : epsCost L V ≤ 1 + L * epsCost L V := by
  cases V with
  | zero => simp [epsCost]
  | succ V =>
    show 1 + L * epsCost L V ≤ 1 + L * epsCost L (V + 1)
    exact Nat.add_le_add_left (Nat.mul_le_mul_left _ (epsCost_le_succ L V)) _

/-- steps to process one symbol with `d` variables still allowed, `c` input symbols consumed -/
def Bd (L V d c : Nat) : Nat :=
  if c = 0 then epsCost L d else (1 + L * epsCost L V) * (d + 1 + (V + 1) * (c - 1))

/-- steps to process a list of `k` symbols -/
def LBd (L V k d c : Nat) : Nat :=
  if c = 0 then k * epsCost L d
  else k * epsCost L V + (1 + L * epsCost L V) * (d + 1 + (V + 1) * (c - 1))

theorem Bd_pos (L V d c : Nat) : 1 ≤ Bd L V d c := by
  unfold Bd
  split
  · exact epsCost_pos L d
  · exact Nat.mul_pos (by omega) (by omega)

theorem Bd_le_LBd (L V k d c : Nat) : Bd L V d c ≤ LBd L V (k + 1) d c := by
  unfold Bd LBd
  split
  · nlinarith [epsCost_pos L d]
  · omega

theorem LBd_step_zero (L V k d c : Nat) (hd : d ≤ V) :
    epsCost L d + LBd L V k d c ≤ LBd L V (k + 1) d c := by
  unfold LBd
  have := epsCost_mono L hd
  split
  · nlinarith
  · nlinarith

theorem LBd_step_pos (L V k d c₁ c₂ : Nat) (h : 1 ≤ c₁) :
    Bd L V d c₁ + LBd L V k V c₂ ≤ LBd L V (k + 1) d (c₁ + c₂) := by
  obtain ⟨x, rfl⟩ : ∃ x, c₁ = x + 1 := ⟨c₁ - 1, by omega⟩
  unfold Bd LBd
  rw [if_neg (by omega), if_neg (by omega : ¬ x + 1 + c₂ = 0)]
  have e1 : x + 1 - 1 = x := by omega
  rw [e1]
  by_cases hc : c₂ = 0
  · subst hc
    rw [if_pos rfl]
    have e2 : x + 1 + 0 - 1 = x := by omega
    rw [e2]
    nlinarith
  · obtain ⟨y, rfl⟩ : ∃ y, c₂ = y + 1 := ⟨c₂ - 1, by omega⟩
    rw [if_neg (by omega)]
    have e2 : y + 1 - 1 = y := by omega
    have e3 : x + 1 + (y + 1) - 1 = x + y + 1 := by omega
    rw [e2, e3]
    have : (1 + L * epsCost L V) * (d + 1 + (V + 1) * x) +
        (1 + L * epsCost L V) * (V + 1 + (V + 1) * y) =
        (1 + L * epsCost L V) * (d + 1 + (V + 1) * (x + y + 1)) := by ring
    nlinarith

theorem LBd_var (L V k d c : Nat) (hk : k ≤ L) : LBd L V k d c + 1 ≤ Bd L V (d + 1) c := by
  unfold Bd LBd
  split
  · show k * epsCost L d + 1 ≤ 1 + L * epsCost L d
    have := Nat.mul_le_mul_right (epsCost L d) hk
    omega
  · have h1 := Nat.mul_le_mul_right (epsCost L V) hk
    have : (1 + L * epsCost L V) * (d + 1 + 1 + (V + 1) * (c - 1)) =
        (1 + L * epsCost L V) * (d + 1 + (V + 1) * (c - 1)) + (1 + L * epsCost L V) := by ring
    rw [this]
    omega

/-- the number of machine steps that always suffices -/
def parseSteps (L V n : Nat) : Nat := (1 + L * epsCost L V) * (V + 1) * (n + 1) + 1

theorem Bd_le_parseSteps (L V c n : Nat) (h : c ≤ n) : Bd L V V c + 1 ≤ parseSteps L V n := by
  unfold Bd parseSteps
  have hE := epsCost_le_G L V
  split
  · have h1 : 1 ≤ (V + 1) * (n + 1) := Nat.mul_pos (by omega) (by omega)
    have h2 := Nat.mul_le_mul_left (1 + L * epsCost L V) h1
    rw [Nat.mul_one, ← Nat.mul_assoc] at h2
    omega
  · obtain ⟨x, rfl⟩ : ∃ x, c = x + 1 := ⟨c - 1, by omega⟩
    have e1 : x + 1 - 1 = x := by omega
    rw [e1]
    have : (1 + L * epsCost L V) * (V + 1 + (V + 1) * x) =
        (1 + L * epsCost L V) * (V + 1) * (x + 1) := by ring
    rw [this]
    have : x + 1 ≤ n + 1 := by omega
    have := Nat.mul_le_mul_left ((1 + L * epsCost L V) * (V + 1)) this
    omega

/-! ### every run ends -/

/-- the longest body -/
def maxBody (G : CFG) : Nat := G.prods.foldr (fun p m => max p.2.length m) 0

theorem le_maxBody {G : CFG} {p : Pfl.Prod} (hp : p ∈ G.prods) : p.2.length ≤ maxBody G := by
  unfold maxBody
  generalize G.prods = ps at hp
  induction ps with
  | nil => cases hp
  | cons q l ih =>
    rw [List.foldr_cons]
    rcases List.mem_cons.mp hp with rfl | hp
    · exact Nat.le_max_left _ _
    · exact le_trans (ih hp) (Nat.le_max_right _ _)

/-- the variables expanded since the last consumed input symbol and still open -/
structure AncOK (G : CFG) (f : Sym → List Look) (fo : Option Sym → List Look) (a : Look)
    (anc : List String) (s : Sym) : Prop where
  nodup : anc.Nodup
  sub : ∀ z ∈ anc, z ∈ G.vars
  above : ∀ z ∈ anc, lt (phi G f fo a s) (phi G f fo a (.var z))

def SymOK (G : CFG) (tb : List (String × Look × Pfl.Prod)) (f : Sym → List Look)
    (w : List String) (d : Nat) (s : Sym) : Prop :=
  ∃ n r, Done tb [s] w n r ∧ (∀ c, r = some c → c ≤ w.length ∧ (c = 0 → look w ∉ f s)) ∧
    n ≤ Bd (maxBody G) G.vars.length d (r.getD w.length)

def ListOK (G : CFG) (tb : List (String × Look × Pfl.Prod)) (f : Sym → List Look)
    (w : List String) (d : Nat) (l : List Sym) : Prop :=
  ∃ n r, Done tb l w n r ∧ (∀ c, r = some c → c ≤ w.length ∧ (c = 0 → ∀ y ∈ l, look w ∉ f y)) ∧
    n ≤ LBd (maxBody G) G.vars.length l.length d (r.getD w.length)

section
variable {G : CFG} {tb : List (String × Look × Pfl.Prod)} {f : Sym → List Look}
  {fo : Option Sym → List Look}

theorem sym_ter (G : CFG) (tb : List (String × Look × Pfl.Prod)) (f : Sym → List Look)
    (w : List String) (d : Nat) (t : String) : SymOK G tb f w d (.ter t) := by
  by_cases h : w.head? = some t
  · cases w with
    | nil => cases h
    | cons a rest =>
      simp only [List.head?_cons, Option.some.injEq] at h
      subst h
      refine ⟨1, some 1, done_ter_ok tb a rest, ?_, Bd_pos _ _ _ _⟩
      intro c hc
      cases hc
      exact ⟨by simp, fun h0 => by cases h0⟩
  · exact ⟨1, none, done_ter_fail tb t w h, fun c hc => (by cases hc), Bd_pos _ _ _ _⟩

theorem list_ok (w : List String) (d : Nat) (hd : d ≤ G.vars.length)
    (hshort : ∀ w' : List String, w'.length < w.length → ∀ l, ListOK G tb f w' G.vars.length l) :
    ∀ l : List Sym,
      (∀ pre s post, l = pre ++ s :: post → (∀ y ∈ pre, look w ∉ f y) → SymOK G tb f w d s) →
      ListOK G tb f w d l := by
  intro l
  induction l with
  | nil =>
    intro _
    refine ⟨0, some 0, done_nil tb w, ?_, Nat.zero_le _⟩
    intro c hc
    cases hc
    exact ⟨Nat.zero_le _, fun _ y hy => by cases hy⟩
  | cons s l ih =>
    intro hyp
    obtain ⟨n₁, r₁, hD₁, hr₁, hb₁⟩ := hyp [] s l rfl (by intro y hy; cases hy)
    cases r₁ with
    | none =>
      refine ⟨n₁, none, done_cons_fail l hD₁, fun c hc => (by cases hc), ?_⟩
      exact le_trans hb₁ (Bd_le_LBd _ _ _ _ _)
    | some c₁ =>
      obtain ⟨hc₁, hnf⟩ := hr₁ c₁ rfl
      cases c₁ with
      | zero =>
        have hs : look w ∉ f s := hnf rfl
        obtain ⟨n₂, r₂, hD₂, hr₂, hb₂⟩ := ih (fun pre s' post e hpre =>
          hyp (s :: pre) s' post (by rw [e]; rfl) (by
            intro y hy
            rcases List.mem_cons.mp hy with rfl | hy
            · exact hs
            · exact hpre y hy))
        refine ⟨n₁ + n₂, r₂, done_cons_zero hD₁ hD₂, ?_, ?_⟩
        · intro c hc
          obtain ⟨h1, h2⟩ := hr₂ c hc
          refine ⟨h1, fun h0 y hy => ?_⟩
          rcases List.mem_cons.mp hy with rfl | hy
          · exact hs
          · exact h2 h0 y hy
        · have hb₁' : n₁ ≤ epsCost (maxBody G) d := by simpa [Bd] using hb₁
          have := LBd_step_zero (maxBody G) G.vars.length l.length d (r₂.getD w.length) hd
          simp only [List.length_cons]
          omega
      | succ c₁ =>
        have hlen : (w.drop (c₁ + 1)).length < w.length := by
          rw [List.length_drop]; omega
        obtain ⟨n₂, r₂, hD₂, hr₂, hb₂⟩ := hshort _ hlen l
        refine ⟨n₁ + n₂, r₂.map (c₁ + 1 + ·), done_cons hD₁ hD₂, ?_, ?_⟩
        · intro c hc
          cases r₂ with
          | none => cases hc
          | some c₂ =>
            simp only [Option.map_some, Option.some.injEq] at hc
            obtain ⟨h1, _⟩ := hr₂ c₂ rfl
            rw [List.length_drop] at h1
            refine ⟨by omega, fun h0 => by omega⟩
        · have hget : (r₂.map (c₁ + 1 + ·)).getD w.length =
              (c₁ + 1) + r₂.getD (w.drop (c₁ + 1)).length := by
            cases r₂ with
            | none => simp only [Option.map_none, Option.getD_none, List.length_drop]; omega
            | some c₂ => simp
          rw [hget]
          have := LBd_step_pos (maxBody G) G.vars.length l.length d (c₁ + 1)
            (r₂.getD (w.drop (c₁ + 1)).length) (by omega)
          simp only [List.length_cons]
          simp only [Option.getD_some] at hb₁
          omega

theorem sym_ok (H : Facts G tb f fo) (w : List String)
    (hshort : ∀ w' : List String, w'.length < w.length → ∀ l, ListOK G tb f w' G.vars.length l) :
    ∀ d anc s, AncOK G f fo (look w) anc s → anc.length + d = G.vars.length → SymOK G tb f w d s := by
  have ha := look_ne_eps w
  -- a variable that is expanded is not among the open ones
  have hnew : ∀ anc v e, AncOK G f fo (look w) anc (.var v) → cell tb v (look w) = [e] →
      (v :: anc).Nodup ∧ (∀ z ∈ v :: anc, z ∈ G.vars) := by
    intro anc v e hA hc
    obtain ⟨hp, hv, _, _⟩ := cell_single H ha hc
    have hvv : v ∈ G.vars := by rw [← hv]; exact H.wf.head_mem _ hp
    refine ⟨List.nodup_cons.mpr ⟨fun hin => lt_irrefl _ (hA.above v hin), hA.nodup⟩, ?_⟩
    intro z hz
    rcases List.mem_cons.mp hz with rfl | hz
    · exact hvv
    · exact hA.sub z hz
  intro d
  induction d with
  | zero =>
    intro anc s hA hlen
    cases s with
    | ter t => exact sym_ter G tb f w 0 t
    | var v =>
      by_cases hc : ∃ e, cell tb v (look w) = [e]
      · obtain ⟨e, hc⟩ := hc
        obtain ⟨h1, h2⟩ := hnew anc v e hA hc
        have := h1.length_le_of_subset (l₂ := G.vars) (fun z hz => h2 z hz)
        simp only [List.length_cons] at this
        omega
      · exact ⟨1, none, done_var_fail tb v w (fun e he => hc ⟨e, he⟩), fun c hc => (by cases hc),
          Bd_pos _ _ _ _⟩
  | succ d ih =>
    intro anc s hA hlen
    cases s with
    | ter t => exact sym_ter G tb f w _ t
    | var v =>
      by_cases hc : ∃ e, cell tb v (look w) = [e]
      · obtain ⟨e, hc⟩ := hc
        obtain ⟨h1, h2⟩ := hnew anc v e hA hc
        obtain ⟨hp, _, _, _⟩ := cell_single H ha hc
        have hyp : ∀ pre s post, e.2.2.2 = pre ++ s :: post → (∀ y ∈ pre, look w ∉ f y) →
            SymOK G tb f w d s := by
          intro pre s post hb hpre
          have hdesc := descent H ha hc pre s post hb hpre
          refine ih (v :: anc) s ⟨h1, h2, ?_⟩ (by simp only [List.length_cons]; omega)
          intro z hz
          rcases List.mem_cons.mp hz with rfl | hz
          · exact hdesc
          · exact lt_trans hdesc (hA.above z hz)
        obtain ⟨n, r, hD, hr, hb⟩ := list_ok w d (by omega) hshort e.2.2.2 hyp
        refine ⟨n + 1, r, done_var hc hD, ?_, ?_⟩
        · intro c hcr
          obtain ⟨h3, h4⟩ := hr c hcr
          exact ⟨h3, fun h0 => nofirst H ha hc (h4 h0)⟩
        · have := LBd_var (maxBody G) G.vars.length e.2.2.2.length d (r.getD w.length) (le_maxBody hp)
          omega
      · exact ⟨1, none, done_var_fail tb v w (fun e he => hc ⟨e, he⟩), fun c hc => (by cases hc),
          Bd_pos _ _ _ _⟩

theorem list_total (H : Facts G tb f fo) : ∀ (n : Nat) (w : List String), w.length = n →
    ∀ l, ListOK G tb f w G.vars.length l := by
  intro n
  induction n using Nat.strong_induction_on with
  | _ n ih =>
    intro w hw l
    have hshort : ∀ w' : List String, w'.length < w.length →
        ∀ l, ListOK G tb f w' G.vars.length l := fun w' hw' => ih w'.length (by omega) w' rfl
    refine list_ok w _ (Nat.le_refl _) hshort l ?_
    intro pre s post _ _
    exact sym_ok H w hshort _ [] s ⟨List.nodup_nil, fun z hz => (by cases hz), fun z hz => by cases hz⟩
      (by simp)

theorem sym_total (H : Facts G tb f fo) (w : List String) (s : Sym) :
    SymOK G tb f w G.vars.length s :=
  sym_ok H w (fun w' _ => list_total H _ w' rfl) _ [] s
    ⟨List.nodup_nil, fun z hz => (by cases hz), fun z hz => by cases hz⟩ (by simp)

/-- the stack machine stops within `parseSteps` steps -/
theorem parseLoop_isSome (H : Facts G tb f fo) (w : List String) (s : String) (fuel : Nat)
    (hf : parseSteps (maxBody G) G.vars.length w.length ≤ fuel) :
    (parseLoop tb fuel [some (.var s), none] w []).isSome = true := by
  obtain ⟨n, r, hD, hr, hb⟩ := sym_total H w (.var s)
  have hc : r.getD w.length ≤ w.length := by
    cases r with
    | none => exact Nat.le_refl _
    | some c => exact (hr c rfl).1
  have hn := Bd_le_parseSteps (maxBody G) G.vars.length _ _ hc
  obtain ⟨k, rfl⟩ : ∃ k, fuel = k + 1 + n := ⟨fuel - n - 1, by omega⟩
  cases r with
  | none =>
    have := hD (k + 1) [none] []
    simp only [List.map_cons, List.map_nil, List.cons_append, List.nil_append] at this
    rw [this]; rfl
  | some c =>
    obtain ⟨out', e⟩ := hD (k + 1) [none] []
    simp only [List.map_cons, List.map_nil, List.cons_append, List.nil_append] at e
    rw [e]
    simp only [parseLoop]
    split <;> rfl

end

end Term
end LL1Lib
end Pfl
