/- Specification-side definitions for the regex object model (C19): the invariant of a history and
what a public call must answer, in terms of the tree an address stands for. -/
import Pfl.Model.RegexObject
import Pfl.Spec.Regex
import Pfl.Spec.FA
namespace Pfl
namespace RxObj
open Pfl.Rx

/-- the counter of object `i` -/
def counterOf (H : Heap) (i : Nat) : Option Nat := (H[i]?).map (·.counter)

/-- every cache holds the Thompson automaton of the object's tree, for some value of the counter -/
def CacheOK (code : String → Nat) (H : Heap) : Prop :=
  ∀ i o A, H[i]? = some o → o.acc = some A →
    ∃ r c, treeOf (i + 1) H i = some r ∧ A = (r.thompson code c).1

/-- the invariant of a history -/
def Inv (code : String → Nat) (H : Heap) : Prop := WF H = true ∧ CacheOK code H

/-- what a call answers, in terms of the trees alone -/
def Answer (code : String → Nat) (H H' : Heap) : Op → Out → Prop
  | .new t, .addr i => i < H'.length ∧ H.length ≤ i ∧ treeOf (i + 1) H' i = some t
  | .union i j, .addr k => H.length ≤ k ∧ ∃ ri rj, treeOf (i + 1) H i = some ri ∧
      treeOf (j + 1) H j = some rj ∧ treeOf (k + 1) H' k = some (.alt ri rj)
  | .concat i j, .addr k => H.length ≤ k ∧ ∃ ri rj, treeOf (i + 1) H i = some ri ∧
      treeOf (j + 1) H j = some rj ∧ treeOf (k + 1) H' k = some (.cat ri rj)
  | .star i, .addr k => H.length ≤ k ∧ ∃ ri, treeOf (i + 1) H i = some ri ∧
      treeOf (k + 1) H' k = some (.star ri)
  | .toENFA i, .fa A => ∃ r, treeOf (i + 1) H i = some r ∧
      ∀ ks, A.Lang ks ↔ ∃ w, Denote r w ∧ w.map code = ks
  | .accepts i w, .bool b => ∃ r, treeOf (i + 1) H i = some r ∧
      (b = true ↔ ∃ w', Denote r w' ∧ w'.map code = w.map code)
  | _, _ => False

/-- the heaps a history goes through, paired with the call made and its answer -/
def trace (code : String → Nat) (fuel : Nat) : Heap → List Op → List (Heap × Op × Out × Heap)
  | _, [] => []
  | H, op :: ops =>
    match step code fuel H op with
    | none => []
    | some (o, H1) => (H, op, o, H1) :: trace code fuel H1 ops

end RxObj
end Pfl
