/-
Specification vocabulary for pushdown automata: configurations, moves, acceptance by empty
stack and by final state.
-/
import Pfl.Model.PDA
namespace Pfl
namespace PDA
variable {σ γ : Type}

/-- a configuration: state, remaining input, stack (top first) -/
abbrev Config (σ γ : Type) := σ × List String × List γ

/-- one move -/
inductive Step (P : PDA σ γ) : Config σ γ → Config σ γ → Prop
  | read {q q' : σ} {a : String} {x : γ} {push β : List γ} {w : List String} :
      (q, some a, x, q', push) ∈ P.delta → Step P (q, a :: w, x :: β) (q', w, push ++ β)
  | eps {q q' : σ} {x : γ} {push β : List γ} {w : List String} :
      (q, none, x, q', push) ∈ P.delta → Step P (q, w, x :: β) (q', w, push ++ β)

/-- reflexive-transitive closure of `Step` -/
inductive Steps (P : PDA σ γ) : Config σ γ → Config σ γ → Prop
  | refl (c : Config σ γ) : Steps P c c
  | head {c c' c'' : Config σ γ} : Step P c c' → Steps P c' c'' → Steps P c c''

/-- acceptance by empty stack -/
def AccEmpty (P : PDA σ γ) (w : List String) : Prop :=
  ∃ s z q, P.start = some s ∧ P.startStack = some z ∧ P.Steps (s, w, [z]) (q, [], [])

/-- acceptance by final state -/
def AccFinal (P : PDA σ γ) (w : List String) : Prop :=
  ∃ s z f β, P.start = some s ∧ P.startStack = some z ∧ f ∈ P.finals ∧ P.Steps (s, w, [z]) (f, [], β)

end PDA
end Pfl
