/-
Specification vocabulary for indexed grammars in reduced form.
-/
import Pfl.Model.Indexed
namespace Pfl
namespace IG

/-- `Derivable G A σ`: the non-terminal `A` with index stack `σ` (top first) derives a terminal word -/
inductive Derivable (G : IG) : String → List String → Prop
  | end_ {a t : String} {σ : List String} : IRule.end_ a t ∈ G.rules → Derivable G a σ
  | prod {a b f : String} {σ : List String} :
      IRule.prod a b f ∈ G.rules → Derivable G b (f :: σ) → Derivable G a σ
  | cons {f a b : String} {σ : List String} :
      IRule.cons f a b ∈ G.rules → Derivable G b σ → Derivable G a (f :: σ)
  | dup {a b c : String} {σ : List String} :
      IRule.dup a b c ∈ G.rules → Derivable G b σ → Derivable G c σ → Derivable G a σ

/-- `Gen G A σ w`: `A` with index stack `σ` derives the terminal word `w`
(an end rule on "epsilon" contributes the empty word) -/
inductive Gen (G : IG) : String → List String → List String → Prop
  | end_ {a t : String} {σ : List String} :
      IRule.end_ a t ∈ G.rules → Gen G a σ (if t = "epsilon" then [] else [t])
  | prod {a b f : String} {σ w : List String} :
      IRule.prod a b f ∈ G.rules → Gen G b (f :: σ) w → Gen G a σ w
  | cons {f a b : String} {σ w : List String} :
      IRule.cons f a b ∈ G.rules → Gen G b σ w → Gen G a (f :: σ) w
  | dup {a b c : String} {σ u v : List String} :
      IRule.dup a b c ∈ G.rules → Gen G b σ u → Gen G c σ v → Gen G a σ (u ++ v)

/-- some terminal word is derivable from the start variable with the empty stack -/
def NonEmpty (G : IG) : Prop := G.Derivable G.start []

end IG
end Pfl
