/-
Specification vocabulary for finite-state transducers: paths and the transduction relation.
-/
import Pfl.Model.FST
namespace Pfl
namespace FST
variable {σ : Type}

/-- `Path T q i o q'`: some path from `q` to `q'` reads `i` and writes `o` (ε-input moves free) -/
inductive Path (T : FST σ) : σ → List String → List String → σ → Prop
  | nil (q : σ) : Path T q [] [] q
  | eps {q r s : σ} {i o o' : List String} :
      (q, none, r, o) ∈ T.delta → Path T r i o' s → Path T q i (o ++ o') s
  | read {q r s : σ} {a : String} {i o o' : List String} :
      (q, some a, r, o) ∈ T.delta → Path T r i o' s → Path T q (a :: i) (o ++ o') s

/-- the transduction relation -/
def Rel (T : FST σ) (i o : List String) : Prop :=
  ∃ s ∈ T.starts, ∃ f ∈ T.finals, T.Path s i o f

/-- ε-cycles write nothing: every ε-move on an ε-cycle has empty output -/
def EpsCyclesSilent (T : FST σ) : Prop :=
  ∀ q o, T.Path q [] o q → o = []

end FST
end Pfl
