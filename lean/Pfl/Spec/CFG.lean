/-
Specification vocabulary for context-free grammars: derivations and the generated language.
-/
import Pfl.Model.CFG
namespace Pfl
namespace CFG

/-- `Derives G u w`: `u ⇒* w` by the productions of `G` -/
inductive Derives (G : CFG) : List Sym → List Sym → Prop
  | refl (u : List Sym) : Derives G u u
  | step {u v body w : List Sym} {h : String} :
      (h, body) ∈ G.prods → Derives G (u ++ body ++ v) w → Derives G (u ++ [Sym.var h] ++ v) w

/-- the words (lists of terminal values) derivable from the start symbol -/
def Lang (G : CFG) (w : List String) : Prop :=
  ∃ s, G.start = some s ∧ G.Derives [.var s] (w.map .ter)

/-- the words derivable from an arbitrary symbol string -/
def Yields (G : CFG) (u : List Sym) (w : List String) : Prop := G.Derives u (w.map .ter)

/-- no terminal and variable share a value (the library confuses them otherwise) -/
def DisjointNames (G : CFG) : Prop := ∀ v ∈ G.vars, v ∉ G.ters

/-- `variables`/`terminals` mention every symbol in use (what `CFG.__init__` guarantees) -/
structure WF (G : CFG) : Prop where
  head_mem : ∀ p ∈ G.prods, p.1 ∈ G.vars
  var_mem : ∀ p ∈ G.prods, ∀ v, Sym.var v ∈ p.2 → v ∈ G.vars
  ter_mem : ∀ p ∈ G.prods, ∀ t, Sym.ter t ∈ p.2 → t ∈ G.ters
  start_mem : ∀ s, G.start = some s → s ∈ G.vars

end CFG
end Pfl
