/-
Specification vocabulary for regular expressions: the denoted language.
-/
import Pfl.Model.Regex
namespace Pfl
namespace Rx

/-- `Denote r w`: the word `w` belongs to the language denoted by `r` -/
inductive Denote : Rx → List String → Prop
  | eps : Denote .eps []
  | sym (s : String) : Denote (.sym s) [s]
  | cat {a b : Rx} {u v : List String} : Denote a u → Denote b v → Denote (.cat a b) (u ++ v)
  | altL {a b : Rx} {w : List String} : Denote a w → Denote (.alt a b) w
  | altR {a b : Rx} {w : List String} : Denote b w → Denote (.alt a b) w
  | starNil {a : Rx} : Denote (.star a) []
  | starCons {a : Rx} {u v : List String} : Denote a u → Denote (.star a) v → Denote (.star a) (u ++ v)

end Rx
end Pfl
