/- Specification-side definitions for the automaton object model (C19): the invariant of the
transition table and the queries' meaning on the set of transitions present. -/
import Pfl.Model.FAObject
import Pfl.Spec.FA
namespace Pfl
namespace FAObj

/-- the shape every table reachable through the API has: keys are unique at both levels, targets
are unique; a deterministic table has exactly one target per entry and no ε key -/
def TInv (det : Bool) (T : Table) : Prop :=
  (T.map (·.1)).Nodup ∧
  (∀ e ∈ T, (e.2.map (·.1)).Nodup) ∧
  (∀ e ∈ T, ∀ f ∈ e.2, f.2.Nodup) ∧
  (det = true → ∀ e ∈ T, ∀ f ∈ e.2, f.1 ≠ none ∧ ∃ r, f.2 = [r])

/-- the set of transitions is functional: at most one target per (state, symbol) -/
def Functional (d : List (Nat × Option Nat × Nat)) : Prop :=
  ∀ q a r r', (q, a, r) ∈ d → (q, a, r') ∈ d → r = r'

/-- object and value agree: same fields, same set of transitions, nothing repeated -/
def Refines (o : Obj) (s : Abs) : Prop :=
  o.states = s.states ∧ o.syms = s.syms ∧ o.starts = s.starts ∧ o.finals = s.finals ∧
  (∀ t, t ∈ edges o.trans ↔ t ∈ s.delta) ∧ (edges o.trans).Nodup ∧ s.delta.Nodup

end FAObj
end Pfl
