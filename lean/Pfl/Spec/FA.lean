/-
Specification vocabulary for finite automata: what "accepts w" means in the property
statements.  Short on purpose; everything else is proved against these definitions.
-/
import Pfl.Model.FA
namespace Pfl
namespace ENFA
variable {σ : Type}

/-- `Run A q w r`: some path from `q` to `r` spells `w`; ε-edges are free -/
inductive Run (A : ENFA σ) : σ → List Nat → σ → Prop
  | nil  (q : σ) : Run A q [] q
  | eps  {q r s : σ} {w : List Nat} : (q, none, r) ∈ A.delta → Run A r w s → Run A q w s
  | step {q r s : σ} {a : Nat} {w : List Nat} :
      (q, some a, r) ∈ A.delta → Run A r w s → Run A q (a :: w) s

/-- the language: words spelled by a run from a start state to a final state -/
def Lang (A : ENFA σ) (w : List Nat) : Prop :=
  ∃ s ∈ A.starts, ∃ f ∈ A.finals, A.Run s w f

/-- ε-reachability -/
def EpsReach (A : ENFA σ) (q r : σ) : Prop := A.Run q [] r

/-- what the `add_*` API guarantees: `_states` mentions every state in use and
`_input_symbols` every non-ε label -/
structure WF (A : ENFA σ) : Prop where
  starts_sub : ∀ q ∈ A.starts, q ∈ A.states
  finals_sub : ∀ q ∈ A.finals, q ∈ A.states
  delta_src  : ∀ t ∈ A.delta, t.1 ∈ A.states
  delta_dst  : ∀ t ∈ A.delta, t.2.2 ∈ A.states
  delta_sym  : ∀ t ∈ A.delta, ∀ a, t.2.1 = some a → a ∈ A.syms

instance [DecidableEq σ] (A : ENFA σ) : Decidable A.WF :=
  decidable_of_iff
    ((∀ q ∈ A.starts, q ∈ A.states) ∧ (∀ q ∈ A.finals, q ∈ A.states) ∧
     (∀ t ∈ A.delta, t.1 ∈ A.states) ∧ (∀ t ∈ A.delta, t.2.2 ∈ A.states) ∧
     (∀ t ∈ A.delta, ∀ a ∈ A.syms ++ A.delta.filterMap (·.2.1), t.2.1 = some a → a ∈ A.syms))
    (by
      constructor
      · rintro ⟨h1, h2, h3, h4, h5⟩
        refine ⟨h1, h2, h3, h4, ?_⟩
        intro t ht a hta
        refine h5 t ht a ?_ hta
        apply List.mem_append_right
        exact List.mem_filterMap.mpr ⟨t, ht, hta⟩
      · intro h
        exact ⟨h.starts_sub, h.finals_sub, h.delta_src, h.delta_dst,
          fun t ht a _ hta => h.delta_sym t ht a hta⟩)

/-- at most one start, at most one successor per (state, label), no ε-edge to another state -/
def Deterministic (A : ENFA σ) : Prop :=
  (∀ p ∈ A.starts, ∀ q ∈ A.starts, p = q) ∧
  (∀ q a r r', (q, a, r) ∈ A.delta → (q, a, r') ∈ A.delta → r = r') ∧
  (∀ q r, (q, none, r) ∈ A.delta → r = q)

def EpsFree (A : ENFA σ) : Prop := ∀ t ∈ A.delta, t.2.1 ≠ none

end ENFA
end Pfl
