import Pfl
#print axioms Pfl.LabelCodec.readPdaLabel_pdaLabel
#print axioms Pfl.LabelCodec.readFstLabel_fstLabel
#print axioms Pfl.LabelCodec.readPdaLabel_pdaLabel_clear
#print axioms Pfl.LabelCodec.readFstLabel_fstLabel_clear
#print axioms Pfl.Codec.read_varToText
#print axioms Pfl.Codec.read_terToText
#print axioms Pfl.Codec.read_capitalised_unmarked
#print axioms Pfl.CFG.cfgMem_iff
#print axioms Pfl.Rx.thompson_lang
#print axioms Pfl.ENFA.langDiff_none_iff
