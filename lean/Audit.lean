import Pfl
#print axioms Pfl.RecDescent.rdMatch_of_derives
#print axioms Pfl.RecDescent.parse_valid
#print axioms Pfl.RecDescent.parse_refuses_only_nonmembers
#print axioms Pfl.LL1Lib.parse_valid
#print axioms Pfl.CFG.treeValid_sound
#print axioms Pfl.CFG.treeValid_complete
#print axioms Pfl.CFG.wellFormedT_gen
#print axioms Pfl.CFG.leftStep_derives
#print axioms Pfl.CFG.rightStep_derives
#print axioms Pfl.CFG.derivationValid_sound
#print axioms Pfl.CFG.leftmostD_valid
#print axioms Pfl.CFG.rightmostD_valid
#print axioms Pfl.CFG.cfgMem_iff
#print axioms Pfl.CFG.toNormalForm_lang
#print axioms Pfl.CFG.llParse_valid
