import Pfl
