import Pfl
#print axioms Pfl.CFG.interRegex_lang
#print axioms Pfl.CFG.interD_lang
#print axioms Pfl.PDA.inter_lang
#print axioms Pfl.PDA.accFinal_iff
#print axioms Pfl.PDA.accEmpty_iff
#print axioms Pfl.CFG.cfgMem_iff
#print axioms Pfl.ENFA.member_iff
#print axioms Pfl.CFG.toNormalForm_lang
