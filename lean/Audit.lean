import Pfl
#print axioms Pfl.CFG.mk'_wf
#print axioms Pfl.CFG.mk'_prods
#print axioms Pfl.CFG.removeUseless_lang
#print axioms Pfl.CFG.removeUseless_useful
#print axioms Pfl.CFG.removeEpsilon_lang
#print axioms Pfl.CFG.removeEpsilon_noEps
#print axioms Pfl.CFG.elimUnit_lang
#print axioms Pfl.CFG.elimUnit_noUnit
#print axioms Pfl.CFG.toNormalForm_lang
#print axioms Pfl.CFG.toNormalForm_isNormalForm
#print axioms Pfl.CFG.cfgMem_iff
#print axioms Pfl.CFG.mem_langUpTo_iff
#print axioms Pfl.CFG.mem_generating_iff
#print axioms Pfl.CFG.mem_reachable_iff
