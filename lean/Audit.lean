import Pfl
#print axioms Pfl.IG.derivable_sound
#print axioms Pfl.IG.marks_sound
#print axioms Pfl.IG.marks_complete
#print axioms Pfl.IG.isEmpty_iff
#print axioms Pfl.IG.removeUseless_nonEmpty
