import Pfl
#print axioms Pfl.FST.relOutputs_iff
#print axioms Pfl.FST.translate_exact
#print axioms Pfl.FST.rename_injective
#print axioms Pfl.FST.union_rel
#print axioms Pfl.FST.concatenate_rel
#print axioms Pfl.FST.kleeneStar_rel
#print axioms Pfl.ENFA.member_iff
