import Pfl
#print axioms Pfl.CFG.cfgMem_iff
#print axioms Pfl.Rx.thompson_lang
#print axioms Pfl.ENFA.langDiff_none_iff
