import Pfl
#print axioms Pfl.ENFA.isEmpty_iff
#print axioms Pfl.ENFA.isDeterministicE_iff
#print axioms Pfl.ENFA.isDeterministicN_iff
#print axioms Pfl.ENFA.reachableCycle_iff
#print axioms Pfl.ENFA.isAcyclic_iff
#print axioms Pfl.ENFA.mem_langUpTo_iff
#print axioms Pfl.ENFA.langUpTo_nodup
#print axioms Pfl.ENFA.mem_leadingToFinal_iff
#print axioms Pfl.ENFA.acceptedWords_exact
#print axioms Pfl.ENFA.acceptedWords_exact_unbounded
#print axioms Pfl.ENFA.member_iff
