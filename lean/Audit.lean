import Pfl
#print axioms Pfl.FS.unify_none_iff
#print axioms Pfl.FS.unify_facts
#print axioms Pfl.FS.unify_wt
#print axioms Pfl.FS.unify_comm
#print axioms Pfl.CFG.cfgMem_iff
#print axioms Pfl.CFG.treeValid_sound
