import Pfl
#print axioms Pfl.ENFA.acceptsE_iff
#print axioms Pfl.ENFA.acceptsN_iff
#print axioms Pfl.ENFA.acceptsD_iff
#print axioms Pfl.ENFA.removeEps_lang
#print axioms Pfl.ENFA.removeEps_epsFree
#print axioms Pfl.ENFA.copyE_lang
#print axioms Pfl.ENFA.copyD_lang
#print axioms Pfl.ENFA.toDet_lang
#print axioms Pfl.ENFA.toDet_lang_noEps
#print axioms Pfl.ENFA.toDet_shape
#print axioms Pfl.ENFA.langDiff_none_iff
#print axioms Pfl.ENFA.langDiff_some
#print axioms Pfl.ENFA.member_iff
