import Pfl
#print axioms Pfl.ENFA.toRegexRx_lang
#print axioms Pfl.Rx.thompson_lang
#print axioms Pfl.ENFA.langDiff_none_iff
#print axioms Pfl.ENFA.langDiff_some
#print axioms Pfl.ENFA.member_iff
