import Pfl
#print axioms Pfl.CFG.genCounters_restores
#print axioms Pfl.CFG.genCounters_history
#print axioms Pfl.CFG.genCounters_generating
#print axioms Pfl.CFG.genCounters_nullable
