import Pfl
#print axioms Pfl.ENFA.inter_lang
#print axioms Pfl.ENFA.mapStates_lang
#print axioms Pfl.ENFA.reverse_lang
#print axioms Pfl.ENFA.complementRaw_lang
#print axioms Pfl.ENFA.complementRaw_lang_dfa
#print axioms Pfl.ENFA.toDet_lang
#print axioms Pfl.ENFA.toDet_shape
#print axioms Pfl.ENFA.langDiff_none_iff
#print axioms Pfl.ENFA.langDiff_some
