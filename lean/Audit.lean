import Pfl
#print axioms Pfl.ENFA.langDiff_none_iff
#print axioms Pfl.ENFA.langDiff_some
#print axioms Pfl.ENFA.toDet_lang
#print axioms Pfl.ENFA.toDet_shape
#print axioms Pfl.ENFA.mem_leadingToFinal_iff
#print axioms Pfl.ENFA.isEmpty_iff
