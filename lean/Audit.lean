import Pfl
#print axioms Pfl.ENFA.isEmpty_iff
#print axioms Pfl.ENFA.isDeterministicE_iff
#print axioms Pfl.ENFA.isDeterministicN_iff
#print axioms Pfl.ENFA.member_iff
#print axioms Pfl.ENFA.langDiff_none_iff
