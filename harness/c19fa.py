"""C19 - an automaton object edited between queries: a history of public mutators (add / remove transition,
start state, final state) interleaved with queries on one EpsilonNFA / NFA object.  After every step the
structure of the live object is extracted; every query must answer as a freshly built object with that
structure answers (two runs of the real code certify a dependence on history) and as the Lean model of the
extracted structure does (membership oracle, eclose, determinism, emptiness)."""
import itertools
from pyformlang.finite_automaton import (EpsilonNFA, NondeterministicFiniteAutomaton, DeterministicFiniteAutomaton,
                                         Epsilon, State)
from . import fa as F
from .core import outcome

STATES = ["q0", "q1", "q2", 0]
SYMS = ["a", "b"]
HEAVY = ["to_deterministic", "remove_epsilon", "minimize", "words", "copy", "to_regex"]
LIGHT = ["accepts", "eclose", "is_deterministic", "is_empty"]
WORDS = [list(w) for n in range(0, 4) for w in itertools.product(SYMS, repeat=n)]


def gen_history(rng):
    cls = rng.choice(["E", "E", "N", "D"])
    ops = [["add_s", "q0"], ["add_f", rng.choice(STATES)]]
    present = []

    def add():
        a = None if (cls == "E" and rng.random() < 0.4) else rng.choice(SYMS)
        t = [rng.choice(STATES), a, rng.choice(STATES)]
        if cls == "D" and any(u[0] == t[0] and u[1] == t[1] for u in present):
            return      # a deterministic automaton refuses a second target
        ops.append(["add_t"] + t)
        present.append(t)
    for _ in range(rng.randint(2, 5)):
        add()
    for _ in range(rng.randint(2, 5)):
        # a round: queries, then a few edits
        ops.append(["query", rng.choice(HEAVY)])
        for _ in range(rng.randint(1, 3)):
            r = rng.random()
            if r < 0.35:
                add()
            elif r < 0.7 and present:
                eps = [i for i, t in enumerate(present) if t[1] is None]
                i = rng.choice(eps) if eps and rng.random() < 0.6 else rng.randrange(len(present))
                ops.append(["rm_t"] + present.pop(i))
            elif r < 0.78:
                ops.append(["add_s", rng.choice(STATES)])
            elif r < 0.84:
                ops.append(["rm_s", rng.choice(STATES)])
            elif r < 0.92:
                ops.append(["add_f", rng.choice(STATES)])
            else:
                ops.append(["rm_f", rng.choice(STATES)])
    ops.append(["query", rng.choice(HEAVY)])
    return {"cls": cls, "ops": ops}


def new(cls):
    return {"E": EpsilonNFA, "N": NondeterministicFiniteAutomaton, "D": DeterministicFiniteAutomaton}[cls]()


def sym(a):
    return Epsilon() if a is None else a


def apply_mut(fa, op):
    k = op[0]
    if k == "add_t":
        fa.add_transition(op[1], sym(op[2]), op[3])
    elif k == "rm_t":
        fa.remove_transition(op[1], sym(op[2]), op[3])
    elif k == "add_s":
        fa.add_start_state(op[1])
    elif k == "rm_s":
        fa.remove_start_state(op[1])
    elif k == "add_f":
        fa.add_final_state(op[1])
    elif k == "rm_f":
        fa.remove_final_state(op[1])


def rebuild(cls, a, scodes, ycodes):
    """a fresh object with the extracted structure"""
    fa = new(cls)
    sv, yv = scodes.values, ycodes.values
    for q in a["states"]:
        fa.states.add(State(sv[q]))
    for q in a["starts"]:
        fa.add_start_state(sv[q])
    for q in a["finals"]:
        fa.add_final_state(sv[q])
    for q, s, r in a["delta"]:
        fa.add_transition(sv[q], Epsilon() if s is None else yv[s], sv[r])
    for s in a["syms"]:
        fa.add_symbol(yv[s])
    return fa


def lang_sig(x):
    return [x.accepts(w) for w in WORDS]


def query(fa, name):
    if name == "accepts":
        return lang_sig(fa)
    if name == "eclose":
        return sorted((str(q.value), sorted(str(r.value) for r in fa.eclose(q))) for q in fa.states) \
            if hasattr(fa, "eclose") else None
    if name == "is_deterministic":
        return fa.is_deterministic()
    if name == "is_empty":
        return fa.is_empty()
    if name == "to_deterministic":
        return lang_sig(fa.to_deterministic())
    if name == "remove_epsilon":
        return lang_sig(fa.remove_epsilon_transitions())
    if name == "minimize":
        return lang_sig(fa.minimize())
    if name == "words":
        return sorted(tuple(str(s.value) for s in w) for w in fa.get_accepted_words(3))
    if name == "copy":
        return lang_sig(fa.copy())
    if name == "to_regex":
        return lang_sig(fa.to_regex())
    raise ValueError(name)


def run_history(case, drv, res):
    cls, ops = case["cls"], case["ops"]
    fa = new(cls)
    scodes, ycodes = F.Codes(list(STATES)), F.Codes(list(SYMS))
    nq = 0
    for idx, op in enumerate(ops):
        if op[0] != "query":
            st, _ = outcome(lambda: apply_mut(fa, op))
            if st != "ok":
                res.tag("mutator_raised")
                return
            continue
        nq += 1
        name = "fa." + op[1]
        st, a = outcome(lambda: F.extract(fa, scodes, ycodes))
        if st != "ok":
            res.tag("extract_fail")
            return
        names = LIGHT + [op[1]]
        got = outcome(lambda: [query(fa, n) for n in names], limit=8.0)
        st, fresh = outcome(lambda: rebuild(cls, a, scodes, ycodes))
        if st != "ok":
            res.tag("rebuild_fail")
            return
        want = outcome(lambda: [query(fresh, n) for n in names], limit=8.0)
        res.evals += 1
        if "timeout" in (got[0], want[0]):
            res.tag("timeout")
            return
        if got != want:
            res.violation(name, "answer of an edited automaton differs from a freshly built equal automaton",
                          detail={"step": idx, "history": ops[:idx + 1], "structure": a,
                                  "with_history": str(got)[:300], "fresh": str(want)[:300]})
            return
        # the model of the extracted structure (language level)
        if got[0] == "ok":
            mem = drv.call("fa.member", A=a, words=[[SYMS.index(c) for c in w] for w in WORDS])
            res.corr += 1
            sigs = [got[1][0]] + ([got[1][-1]] if op[1] in ("to_deterministic", "remove_epsilon", "minimize", "copy", "to_regex") else [])
            if any(sg != mem for sg in sigs):
                res.violation(name, "language of the result differs from the language of the current structure",
                              detail={"step": idx, "history": ops[:idx + 1], "structure": a, "impl": sigs, "spec": mem})
                return
    res.nontrivial = nq >= 2 and len(ops) >= 8
    res.tag("fa_edit_history")
