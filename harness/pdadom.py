"""PDA domain: generators, construction, extraction."""
from pyformlang.pda import PDA, Epsilon as PEps

STATES = ["q0", "q1", "q2"]
STACK = ["Z", "X", "Y"]
INPUTS = ["a", "b"]
ADV_STATES = ["#STARTTOFINAL#", "#ENDTOFINAL#", "#STARTEMPTYS#", "#ENDEMPTYS#", "#STARTTOFINAL#0", "#ENDEMPTYS#0", "q"]
ADV_STACK = ["#BOTTOMTOFINAL#", "#BOTTOMEMPTYS#", "#BOTTOMTOFINAL#0", "#TERM#a", "S"]


def gen_pda(rng, max_states=3, adversarial=None):
    adversarial = rng.random() < 0.15 if adversarial is None else adversarial
    ns = rng.randint(1, max_states)
    states = STATES[:ns]
    stack = STACK[:rng.randint(1, 3)]
    inputs = INPUTS[:rng.randint(1, 2)]
    if adversarial:
        states = states[:max(1, ns - 1)] + rng.sample(ADV_STATES, rng.randint(1, 2))
        stack = stack[:max(1, len(stack) - 1)] + rng.sample(ADV_STACK, 1)
    nt = rng.randint(1, 7)
    delta = []
    for _ in range(nt):
        q = rng.choice(states)
        a = rng.choice(inputs) if rng.random() < 0.65 else None
        x = rng.choice(stack)
        q2 = rng.choice(states)
        k = rng.choice([0, 0, 1, 1, 2, 2, 3])
        push = [rng.choice(stack) for _ in range(k)]
        delta.append([q, a, x, q2, push])
    finals = [q for q in states if rng.random() < 0.4]
    # "lazy": nothing is declared to the constructor; states, symbols and marks are registered only by
    # set_start_state / set_start_stack_symbol / add_final_state / add_transition, in that order - a final
    # state may then be a state that no transition and no other call mentions
    lazy = rng.random() < 0.2
    return {"states": states, "inputs": inputs, "stack": stack, "start": states[0], "startStack": stack[0],
            "finals": finals, "delta": delta, "lazy": lazy}


def build(spec):
    if spec.get("lazy"):
        p = PDA()
        p.set_start_state(spec["start"])
        p.set_start_stack_symbol(spec["startStack"])
        for q in spec["finals"]:
            p.add_final_state(q)
        for q, a, x, q2, push in spec["delta"]:
            p.add_transition(q, PEps() if a is None else a, x, q2, push)
        return p
    p = PDA(states=set(spec["states"]), input_symbols=set(spec["inputs"]), stack_alphabet=set(spec["stack"]),
            start_state=spec["start"], start_stack_symbol=spec["startStack"], final_states=set(spec["finals"]))
    for q, a, x, q2, push in spec["delta"]:
        p.add_transition(q, PEps() if a is None else a, x, q2, push)
    return p


def extract(p, state_key=lambda v: v):
    """model-format PDA (values must be JSON-friendly; state_key maps a state value)"""
    delta = []
    for (s_from, sym, st_from), outs in p.to_dict().items():
        for s_to, push in outs:
            a = None if isinstance(sym, PEps) else sym.value
            delta.append([state_key(s_from.value), a, st_from.value, state_key(s_to.value), [x.value for x in push]])
    sss = getattr(p, "_start_stack_symbol", None)
    return {"states": [state_key(s.value) for s in p.states], "inputs": [s.value for s in p.input_symbols],
            "stack": [s.value for s in p.stack_symbols],
            "start": state_key(p.start_state.value) if p.start_state is not None else None,
            "startStack": sss.value if sss is not None else None,
            "finals": [state_key(s.value) for s in p.final_states], "delta": delta}


def _k(x):
    return tuple(_k(y) for y in x) if isinstance(x, (list, tuple)) else x


def canon(p):
    return {"states": sorted(map(_k, set(map(_k, p["states"]))), key=str), "inputs": sorted(set(p["inputs"])),
            "stack": sorted(set(p["stack"])), "start": _k(p["start"]), "startStack": p["startStack"],
            "finals": sorted(set(map(_k, p["finals"])), key=str),
            "delta": sorted({(_k(t[0]), "" if t[1] is None else "s:" + t[1], t[2], _k(t[3]), tuple(t[4]))
                             for t in p["delta"]}, key=str)}


def same(a, b, fields=("states", "inputs", "stack", "start", "startStack", "finals", "delta")):
    ca, cb = canon(a), canon(b)
    return [f for f in fields if ca[f] != cb[f]]


def is_nontrivial(spec):
    return len(spec["delta"]) >= 3 and any(len(t[4]) >= 2 for t in spec["delta"])
