"""C19 - an FST object as a state machine (Pfl/Model/FSTObject.lean): a history of public mutator calls
(add_transition incl. the same transition twice, epsilon input, `epsilon` among the output symbols,
add_start_state, add_final_state) with translations in between.  After every call the private fields
(`_states`, `_input_symbols`, `_output_symbols`, `_start_states`, `_final_states`, `_delta` as the dict of lists it
is - key order, list order, repetitions) and `get_number_transitions()` are compared with the model;
translations by the live object are compared with those of a fresh transducer that received the current
transitions in one go (two runs of the real code)."""
import itertools
from pyformlang.fst import FST
from .core import outcome

STATES = ["q0", "q1", "q2"]
INPUTS = ["a", "b"]
OUTS = ["x", "y", "epsilon"]
WORDS = [[], ["a"], ["b"], ["a", "a"], ["a", "b"], ["b", "a"]]


def gen_history(rng):
    ops = []
    added = []
    for _ in range(rng.randint(3, 10)):
        r = rng.random()
        if r < 0.55:
            if added and rng.random() < 0.25:
                t = list(rng.choice(added))                  # the same transition once more
            else:
                a = rng.choice(INPUTS) if rng.random() < 0.8 else None
                t = [rng.choice(STATES), a, rng.choice(STATES), [rng.choice(OUTS) for _ in range(rng.choice([0, 1, 1, 2]))]]
            added.append(t)
            ops.append(["add_t"] + t)
        elif r < 0.7:
            ops.append(["add_s", rng.choice(STATES)])
        elif r < 0.85:
            ops.append(["add_f", rng.choice(STATES)])
        else:
            ops.append(["translate"])
    ops.append(["translate"])
    return {"ops": ops}


def apply_mut(t, op):
    if op[0] == "add_t":
        t.add_transition(op[1], "epsilon" if op[2] is None else op[2], op[3], list(op[4]))
    elif op[0] == "add_s":
        t.add_start_state(op[1])
    else:
        t.add_final_state(op[1])


def hidden(t):
    delta = [[[q, None if a == "epsilon" else a], [[r, list(o)] for r, o in outs]]
             for (q, a), outs in getattr(t, "_delta").items()]
    return {"states": sorted(getattr(t, "_states")), "inputs": sorted(getattr(t, "_input_symbols")),
            "outputs": sorted(getattr(t, "_output_symbols")), "starts": sorted(getattr(t, "_start_states")),
            "finals": sorted(getattr(t, "_final_states")), "delta": delta}


def translations(t):
    # an epsilon loop that writes makes the enumeration infinite: bounded output length, bounded count
    return [sorted(tuple(o) for o in itertools.islice(t.translate(w, max_length=4), 200)) for w in WORDS]


def fresh_from(t):
    g = FST()
    for s in t.states:
        g.states.add(s)
    for s in t.start_states:
        g.add_start_state(s)
    for s in t.final_states:
        g.add_final_state(s)
    for (q, a), outs in t.transitions.items():
        for r, o in outs:
            g.add_transition(q, a, r, list(o))
    return g


def run_history(case, drv, res):
    ops = case["ops"]
    t = FST()
    mops = [o for o in ops if o[0] != "translate"]
    model = drv.call("fst.objRun", ops=mops)
    res.nontrivial = len(mops) >= 4
    mi = 0
    for idx, op in enumerate(ops):
        if op[0] == "translate":
            a = outcome(lambda: translations(t), limit=8.0)
            st, g = outcome(lambda: fresh_from(t))
            if st != "ok":
                res.tag("rebuild_fail")
                return
            b = outcome(lambda: translations(g), limit=8.0)
            res.evals += 1
            if "timeout" in (a[0], b[0]):
                res.tag("timeout")
                return
            if a != b:
                res.violation("fst.translate", "a transducer built step by step translates differently from a fresh "
                              "transducer with the same transitions", detail={"step": idx, "history": ops[:idx + 1],
                                                                             "with_history": str(a)[:300], "fresh": str(b)[:300]})
                return
            continue
        name = "fst." + {"add_t": "add_transition", "add_s": "add_start_state", "add_f": "add_final_state"}[op[0]]
        st, _ = outcome(lambda: apply_mut(t, op))
        if st != "ok":
            res.violation(name, "raised %s" % _, detail={"history": ops[:idx + 1]})
            return
        m = model[mi]
        mi += 1
        st, h = outcome(lambda: hidden(t))
        res.corr += 1
        if st != "ok":
            res.corr_break(name, "private fields cannot be read as the FST object model describes them",
                           detail={"history": ops[:idx + 1]})
            return
        mv = {"states": sorted(m["states"]), "inputs": sorted(m["inputs"]), "outputs": sorted(m["outputs"]),
              "starts": sorted(m["starts"]), "finals": sorted(m["finals"]), "delta": m["delta"]}
        if h != mv:
            diff = [k for k in h if h[k] != mv[k]]
            res.corr_break(name, "private fields %s differ from the FST object model" % diff,
                           detail={"step": idx, "history": ops[:idx + 1], "impl": str({k: h[k] for k in diff})[:300],
                                   "model": str({k: mv[k] for k in diff})[:300]})
            return
        st, n = outcome(t.get_number_transitions)
        res.corr += 1
        if st != "ok" or n != m["num"]:
            res.corr_break(name, "get_number_transitions() differs from the model", detail={"impl": n, "model": m["num"]})
            return
    res.tag("fst_object_history")
