"""./check <Cxx> [--tier quick|thorough] [--replay file]

1. builds the Lean development and audits it (no sorry / foreign axioms; `#print axioms`
   of every registered theorem),
2. runs the correspondence + oracle search against /repo's working tree in several
   worker processes (each with its own PYTHONHASHSEED),
3. classifies findings (DESIGN 2.4), writes evidence/<id>.json and replay files, prints
   KNOWN-FINDING / VIOLATION lines; exit 0 / 1 (2 = infrastructure failure)."""
import argparse
import hashlib
import importlib
import json
import os
import re
import subprocess
import sys
import tempfile
import time

VERIF = os.path.dirname(os.path.dirname(os.path.abspath(__file__)))
LEAN = os.path.join(VERIF, "lean")
PY = sys.executable
ALLOWED_AXIOMS = {"propext", "Classical.choice", "Quot.sound"}
FORBIDDEN = re.compile(r"\b(sorry|admit|native_decide|bv_decide|implemented_by|unsafe)\b|^axiom |maxHeartbeats 0")

TIERS = {"quick": {"workers": 6, "budget": 35.0}, "thorough": {"workers": 16, "budget": 420.0}}


def sh(cmd, cwd=None, timeout=3600):
    return subprocess.run(cmd, cwd=cwd, shell=True, capture_output=True, text=True, timeout=timeout)


def lean_sources():
    out = []
    for root, _, files in os.walk(LEAN):
        if ".lake" in root or os.sep + "wip" in root:
            continue   # lean/wip holds statements still being proved; nothing there is imported or claimed
        for f in files:
            if f.endswith(".lean") or f in ("lakefile.toml",):
                out.append(os.path.join(root, f))
    return sorted(out)


def strip_comments(text):
    text = re.sub(r"/-.*?-/", "", text, flags=re.S)
    return re.sub(r"--.*", "", text)


def _sources_digest():
    h = hashlib.sha1()
    for p in lean_sources():
        if os.path.basename(p).startswith("Audit"):
            continue
        h.update(p.encode())
        h.update(open(p, "rb").read())
    return h.hexdigest()[:16]


def build_and_audit(theorems, pid="all"):
    """returns (ok, info). Cached on the hash of the Lean sources + theorem list."""
    t0 = time.time()
    r = sh("lake build Pfl PflDrv drv 2>&1", cwd=LEAN)
    if r.returncode != 0:
        return False, {"error": "lake build failed", "log": r.stdout[-4000:]}
    h = hashlib.sha1()
    for p in lean_sources():
        h.update(p.encode())
        h.update(open(p, "rb").read())
    h.update(json.dumps(sorted(theorems)).encode())
    digest = h.hexdigest()
    cache = os.path.join(LEAN, ".lake", "audit_cache_%s.json" % pid)
    if os.path.exists(cache):
        try:
            c = json.load(open(cache))
            if c.get("digest") == digest:
                c["cached"] = True
                c["build_s"] = time.time() - t0
                return c["ok"], c
        except Exception:  # pylint: disable=broad-except
            pass
    bad = []
    for p in lean_sources():
        if not p.endswith(".lean") or os.path.basename(p).startswith("Audit"):
            continue
        for i, line in enumerate(strip_comments(open(p).read()).splitlines()):
            if FORBIDDEN.search(line):
                bad.append("%s: %s" % (os.path.relpath(p, LEAN), line.strip()))
    audit = os.path.join(LEAN, ".lake", "Audit_%s.lean" % pid)
    with open(audit, "w") as fh:
        fh.write("import Pfl\n")
        for t in theorems:
            fh.write("#print axioms %s\n" % t)
    r = sh("lake env lean %s 2>&1" % os.path.relpath(audit, LEAN), cwd=LEAN)
    axioms = {}
    cur = None
    text = r.stdout
    for m in re.finditer(r"'(\S+)' (does not depend on any axioms|depends on axioms: \[([^\]]*)\])", text):
        name = m.group(1)
        axs = [a.strip() for a in (m.group(3) or "").replace("\n", " ").split(",") if a.strip()]
        axioms[name] = axs
    discharged = [t for t in theorems if t in axioms and set(axioms[t]) <= ALLOWED_AXIOMS]
    missing = [t for t in theorems if t not in discharged]
    if os.environ.get("VERIF_DEV") == "1":   # development only: tolerate work-in-progress files
        bad = []
    ok = not bad and not missing and r.returncode == 0
    info = {"digest": digest, "ok": ok, "forbidden_tokens": bad, "axioms": axioms,
            "obligations": len(theorems), "discharged": len(discharged), "not_discharged": missing,
            "audit_log": text[-2000:] if not ok else "", "cached": False, "build_s": time.time() - t0}
    try:
        json.dump(info, open(cache, "w"))
    except Exception:  # pylint: disable=broad-except
        pass
    return ok, info


def load_known():
    p = os.path.join(VERIF, "known_findings.json")
    if not os.path.exists(p):
        return []
    return [e for e in json.load(open(p)) if e.get("status", "open") == "open"]


def match_known(pid, finding, known):
    for e in known:
        if e["property"] != pid:
            continue
        if e.get("ops") and finding["op"] not in e["ops"]:
            continue
        if e["scope"] not in finding.get("scope", []):
            continue
        if e.get("require_model_agreement", True) and not finding.get("model_agrees"):
            continue
        return e
    return None


def run_workers(pid, tier, seed, cases_file=None, workers=None, budget=None, hashseed=None):
    cfg = TIERS[tier]
    workers = workers or cfg["workers"]
    budget = budget or cfg["budget"]
    if cases_file:
        workers = 1
    procs = []
    tmp = tempfile.mkdtemp(prefix="verif_%s_" % pid, dir=os.path.join(VERIF, ".work"))
    for w in range(workers):
        env = dict(os.environ)
        env["PYTHONHASHSEED"] = str((seed * 7919 + w * 104729 + 1) % 4294967295) if hashseed is None else str(hashseed)
        env["PYTHONPATH"] = VERIF + os.pathsep + "/repo"
        out = os.path.join(tmp, "w%d.json" % w)
        cmd = [PY, "-m", "harness.worker", "--prop", pid, "--seed", str(seed), "--wid", str(w),
               "--nworkers", str(workers), "--tier", tier, "--budget", str(budget), "--out", out]
        if cases_file:
            cmd += ["--cases", cases_file]
        procs.append((subprocess.Popen(cmd, env=env, cwd=VERIF, stdout=subprocess.PIPE,
                                       stderr=subprocess.STDOUT, text=True, start_new_session=True), out))
    results = []
    infra = []
    for p, out in procs:
        try:
            log, _ = p.communicate(timeout=budget * 3 + 120)
        except subprocess.TimeoutExpired:
            try:
                os.killpg(p.pid, 9)
            except OSError:
                p.kill()
            log = "worker timeout"
            infra.append(log)
        if os.path.exists(out):
            results.append(json.load(open(out)))
            os.remove(out)
        else:
            infra.append("worker produced no output: " + (log or "")[-1500:])
    try:
        os.rmdir(tmp)
    except OSError:
        pass
    return results, infra


def main():
    ap = argparse.ArgumentParser()
    ap.add_argument("prop")
    ap.add_argument("--tier", default=os.environ.get("VERIF_TIER", "quick"))
    ap.add_argument("--replay")
    ap.add_argument("--workers", type=int)
    ap.add_argument("--budget", type=float)
    args = ap.parse_args()
    pid = args.prop.upper()
    tier = args.tier if args.tier in TIERS else "quick"
    seed = int(os.environ.get("VERIF_SEED", "0") or 0)
    t0 = time.time()
    os.makedirs(os.path.join(VERIF, ".work"), exist_ok=True)
    os.makedirs(os.path.join(VERIF, "evidence"), exist_ok=True)
    os.makedirs(os.path.join(VERIF, "replays"), exist_ok=True)
    sys.path.insert(0, VERIF)
    sys.path.insert(1, "/repo")
    mod = importlib.import_module("harness.props." + pid.lower())

    ok, audit = build_and_audit(mod.THEOREMS, pid)
    if ok and tier == "thorough":
        # independent re-check of the compiled library by leanchecker, once per state of the Lean sources
        lc = os.path.join(LEAN, ".lake", "leanchecker_%s.ok" % _sources_digest())
        if not os.path.exists(lc):
            r = sh("timeout 1500 lake env leanchecker Pfl 2>&1", cwd=LEAN)
            if r.returncode == 0:
                open(lc, "w").write("ok\n")
            else:
                ok = False
                audit["log"] = "leanchecker failed: " + r.stdout[-1500:]
        audit["leanchecker"] = os.path.exists(lc)
    if not ok:
        print("INFRA: Lean build/audit failed: %s" % json.dumps({k: audit.get(k) for k in
              ("error", "forbidden_tokens", "not_discharged", "audit_log", "log")})[:3000])
        sys.exit(2)

    known = load_known()
    findings = []
    infra = []
    results = []
    # 1. corpus (regression cases and known-finding witnesses) -------------------
    corpus_dir = os.path.join(VERIF, "corpus", pid)
    corpus_cases = []
    if os.path.isdir(corpus_dir) and not args.replay:
        for f in sorted(os.listdir(corpus_dir)):
            if f.endswith(".json"):
                c = json.load(open(os.path.join(corpus_dir, f)))
                c["_corpus"] = f
                corpus_cases.append(c)
    if args.replay:
        rp = json.load(open(args.replay))
        corpus_cases = [rp["case"]] if "case" in rp else []
    if corpus_cases:
        cf = os.path.join(VERIF, ".work", "cases_%s_%d.json" % (pid, os.getpid()))
        json.dump(corpus_cases, open(cf, "w"))
        r, i = run_workers(pid, tier, seed, cases_file=cf, hashseed=(rp.get("hashseed") if args.replay else None))
        os.remove(cf)
        results += r
        infra += i
    # 2. generated cases -----------------------------------------------------------
    if not args.replay:
        r, i = run_workers(pid, tier, seed, workers=args.workers, budget=args.budget)
        results += r
        infra += i

    tags = {}
    keys = set()
    samples = []
    cases = evals = corr = 0
    hashseeds = []
    exhaustive = True
    for r in results:
        cases += r["cases"]
        evals += r["evals"]
        corr += r["corr"]
        keys.update(r["keys"])
        hashseeds.append(r["hashseed"])
        samples += r["samples"][:1]
        infra += r["infra"]
        exhaustive = exhaustive and r.get("exhaustive_done", False)
        for k, v in r["tags"].items():
            tags[k] = tags.get(k, 0) + v
        for f_ in r["findings"]:
            f_["hashseed"] = r["hashseed"]
        findings += r["findings"]
        if not os.path.realpath(r["pyformlang"]).startswith("/repo"):
            infra.append("pyformlang imported from %s, not /repo" % r["pyformlang"])

    violations, known_hits, corr_breaks = [], {}, []
    for f in findings:
        if f["kind"] == "violation":
            e = match_known(pid, f, known)
            if e:
                known_hits.setdefault(e["id"], []).append(f)
            else:
                violations.append(f)
        else:
            corr_breaks.append(f)

    if os.environ.get("VERIF_DEV") == "1":
        groups = {}
        for f in violations + corr_breaks:
            k = (f["kind"], f["op"], f["what"][:70], tuple(f["scope"]), f["model_agrees"])
            groups.setdefault(k, []).append(f)
        for k, fs in sorted(groups.items(), key=lambda kv: -len(kv[1])):
            print("DEV %5d %s" % (len(fs), k))
            print("DEV        e.g. %s %s" % (json.dumps(fs[0]["case"], default=str)[:600], str(fs[0]["detail"])[:300]))
    lines = []
    exit_code = 0
    for kid, fs in sorted(known_hits.items()):
        e = [k for k in known if k["id"] == kid][0]
        lines.append("KNOWN-FINDING: property=%s %s %s (%d failing cases this run)" % (pid, kid, e["what"], len(fs)))
    seen_sig = set()
    nrep = 0
    for f in violations:
        sig = (f["op"], f["what"])
        if sig in seen_sig and nrep >= 3:
            continue
        seen_sig.add(sig)
        nrep += 1
        path = os.path.join("replays", "%s_%s_%s.json" % (pid, f["op"].replace("/", "_"), hashlib.sha1(
            json.dumps(f, sort_keys=True, default=str).encode()).hexdigest()[:10]))
        json.dump({"property": pid, "kind": "violation", "op": f["op"], "what": f["what"],
                   "detail": f["detail"], "case": f["case"], "model_agrees": f["model_agrees"],
                   "scope": f["scope"], "hashseed": f.get("hashseed")}, open(os.path.join(VERIF, path), "w"), indent=1, default=str)
        lines.append("VIOLATION property=%s replay=%s" % (pid, path))
        exit_code = 1
        if nrep >= 5:
            break
    if not violations and corr_breaks:
        # the tie between model and code is broken and no failing input was found
        f = corr_breaks[0]
        path = os.path.join("replays", "%s_corr_%s.json" % (pid, hashlib.sha1(
            json.dumps(f, sort_keys=True, default=str).encode()).hexdigest()[:10]))
        json.dump({"property": pid, "kind": "correspondence", "op": f["op"], "what": f["what"],
                   "detail": f["detail"], "case": f["case"], "hashseed": f.get("hashseed"),
                   "no_longer_tied": {"correspondence_op": f["op"], "theorems": mod.THEOREMS},
                   "n_breaks": len(corr_breaks)}, open(os.path.join(VERIF, path), "w"), indent=1, default=str)
        lines.append("VIOLATION property=%s replay=%s no-failing-input-found" % (pid, path))
        exit_code = 1
    if infra and exit_code == 0:
        exit_code = 2

    wall = time.time() - t0
    evidence = {
        "property_id": pid, "tier": tier, "seed": seed, "level": getattr(mod, "LEVEL", "proof"),
        "coverage": {
            "obligations": max(audit["obligations"], 0), "discharged": audit["discharged"],
            "checker_cmd": "cd lean && lake build Pfl && lake env lean .lake/Audit_<id>.lean  (#print axioms of every registered theorem)" + ("; lake env leanchecker Pfl" if audit.get("leanchecker") else ""),
            "trusted_base": ["Lean 4.33.0 kernel", "axioms: propext, Classical.choice, Quot.sound only",
                             "Spec definitions in lean/Pfl/Spec", "correspondence harness (harness/*.py, lean/PflDrv)",
                             "CPython sets/dicts/str modelled as lists/strings"],
            "theorems": mod.THEOREMS,
            "explanation": getattr(mod, "EXPLANATION", "Lean theorems about a faithful model, tied to /repo by differential correspondence; instances decided by verified oracles (see rule)."),
            "evaluations": evals, "distinct_nontrivial": len(keys), "rule": mod.RULE,
            "samples": samples[:3] or [{"note": "no non-trivial sample this run"}],
            "programs": cases, "traces_validated_against_impl": corr,
            "disagreements_checked": len(corr_breaks),
            "exhaustive": bool(exhaustive and tier == "thorough" and hasattr(mod, "exhaustive")),
            "input_distribution": tags, "hash_seeds": hashseeds,
            "known_findings_hit": {k: len(v) for k, v in known_hits.items()},
            "infra_messages": infra[:5], "audit_cached": audit.get("cached", False),
        },
        "assumptions": getattr(mod, "ASSUMPTIONS", []) + [
            "the faithful model is tied to /repo only through the inputs explored by this run"],
        "wall_s": round(wall, 2), "violations": len(violations),
    }
    json.dump(evidence, open(os.path.join(VERIF, "evidence", "%s.json" % pid), "w"), indent=1, default=str)
    for ln in lines:
        print(ln)
    print("%s tier=%s seed=%d cases=%d oracle_evals=%d corr=%d distinct_nontrivial=%d violations=%d "
          "corr_breaks=%d known=%s theorems=%d/%d wall=%.1fs exit=%d" % (
              pid, tier, seed, cases, evals, corr, len(keys), len(violations), len(corr_breaks),
              sorted(known_hits), audit["discharged"], audit["obligations"], wall, exit_code))
    for m in infra[:3]:
        print("INFRA: " + str(m)[:1500])
    sys.exit(exit_code)


if __name__ == "__main__":
    main()
