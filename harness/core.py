"""Shared machinery of the correspondence harness: driver client, case results,
per-case time limits, canonical forms.  See DESIGN.md section 2.3, 2.4 and 4."""
import json
import os
import signal
import subprocess
import sys
import hashlib

VERIF = os.path.dirname(os.path.dirname(os.path.abspath(__file__)))
LEAN_DIR = os.path.join(VERIF, "lean")
DRV_BIN = os.path.join(LEAN_DIR, ".lake", "build", "bin", "drv")


class DrvError(Exception):
    pass


class Drv:
    """Synchronous client of the Lean model/oracle driver (one JSON line each way)."""

    CALL_TIMEOUT = 60.0

    def __init__(self):
        self.calls = 0
        self._start()

    def _start(self):
        self.proc = subprocess.Popen([DRV_BIN], stdin=subprocess.PIPE, stdout=subprocess.PIPE,
                                     stderr=subprocess.DEVNULL, text=True, bufsize=1, close_fds=True)

    def call(self, op, _timeout=None, _retry=True, **kw):
        kw["op"] = op
        import select
        self.proc.stdin.write(json.dumps(kw) + "\n")
        self.proc.stdin.flush()
        ready, _, _ = select.select([self.proc.stdout], [], [], _timeout or self.CALL_TIMEOUT)
        if not ready:
            # the model/oracle did not answer in time: restart the driver; on a busy machine one more try
            # with three times the limit before an infrastructure error is reported
            self.proc.kill()
            self._start()
            if _retry and _timeout is None:
                kw.pop("op")
                return self.call(op, _timeout=3 * self.CALL_TIMEOUT, _retry=False, **kw)
            raise DrvError("driver timeout on %s" % op)
        line = self.proc.stdout.readline()
        self.calls += 1
        if not line:
            self._start()
            raise DrvError("driver died on %s" % op)
        ans = json.loads(line)
        if "err" in ans:
            raise DrvError("%s: %s" % (op, ans["err"]))
        return ans["ok"]

    def close(self):
        try:
            self.proc.stdin.close()
            self.proc.wait(timeout=5)
        except Exception:
            self.proc.kill()


class CaseTimeout(Exception):
    pass


def _alarm(signum, frame):
    raise CaseTimeout()


class time_limit:
    """per-call limit: the library can loop forever on some inputs (DESIGN D08)"""

    def __init__(self, seconds):
        self.seconds = seconds

    def __enter__(self):
        signal.signal(signal.SIGALRM, _alarm)
        signal.setitimer(signal.ITIMER_REAL, self.seconds)

    def __exit__(self, *a):
        signal.setitimer(signal.ITIMER_REAL, 0)
        return False


def outcome(fn, limit=5.0, retry=True):
    """run fn(); result is ("ok", value) | ("exc", ClassName) | ("timeout", None)"""
    try:
        with time_limit(limit):
            return ("ok", fn())
    except CaseTimeout:
        if not retry:
            return ("timeout", None)
        # a stall of the machine is not a hang of the library: one retry with a much larger limit
        # before the outcome "timeout" (which several checks count as a violation) is reported
        try:
            with time_limit(limit * 6):
                return ("ok", fn())
        except CaseTimeout:
            return ("timeout", None)
        except RecursionError:
            return ("exc", "RecursionError")
        except Exception as exc:  # pylint: disable=broad-except
            return ("exc", type(exc).__name__)
    except RecursionError:
        return ("exc", "RecursionError")
    except Exception as exc:  # pylint: disable=broad-except
        return ("exc", type(exc).__name__)


class Finding:
    """kind: 'violation' (the property fails on this input, certified by an exact oracle)
             'corr'      (implementation and faithful model differ; property holds here)
       scope: tags of the call-site class, matched against known_findings.json
       model_agrees: implementation behaved exactly as the faithful (bug-compatible) model"""

    def __init__(self, kind, op, what, detail=None, scope=(), model_agrees=False):
        self.kind = kind
        self.op = op
        self.what = what
        self.detail = detail or {}
        self.scope = list(scope)
        self.model_agrees = model_agrees

    def to_json(self):
        return {"kind": self.kind, "op": self.op, "what": self.what, "detail": self.detail,
                "scope": self.scope, "model_agrees": self.model_agrees}


class CaseResult:
    def __init__(self):
        self.findings = []
        self.evals = 0          # oracle-decided property instances
        self.corr = 0           # implementation outputs compared with the model
        self.tags = {}          # distribution counters
        self.nontrivial = False
        self.key = None

    def tag(self, name, n=1):
        self.tags[name] = self.tags.get(name, 0) + n

    def violation(self, op, what, **kw):
        self.findings.append(Finding("violation", op, what, **kw))

    def corr_break(self, op, what, **kw):
        self.findings.append(Finding("corr", op, what, **kw))


def case_key(case):
    return hashlib.sha1(json.dumps(case, sort_keys=True, default=str).encode()).hexdigest()[:16]


def jdump(obj):
    return json.dumps(obj, sort_keys=True, default=str)
