"""CFG domain: generators, construction through the public API, extraction, canonical forms."""
import itertools
from pyformlang.cfg import CFG, Production, Variable, Terminal

VARS = ["S", "A", "B", "C", "D"]
TERS = ["a", "b", "c"]
ADV_VARS = ["C#CNF#1", "C#CNF#2", "a#CNF#", "b#CNF#", "Start", "S#SUBS#0", "A#SUBS#1", "#STARTUNION#",
            "#STARTCONC#", "#STARTCLOS#", "#VARPOSCLOS#", "x", "S0"]
ADV_TERS = ["#0UNION#", "#1UNION#", "#1CLOS#", "#0CONC#", "#1POSCLOS#", "C#CNF#1", "Z", "S#SUBS#0"]


def gen_cfg(rng, max_vars=4, adversarial=None, eps=True, max_prods=8):
    nv = rng.randint(1, max_vars)
    nt = rng.randint(1, 3)
    adversarial = rng.random() < 0.15 if adversarial is None else adversarial
    vs = VARS[:nv]
    ts = TERS[:nt]
    if adversarial:
        k = rng.randint(1, 2)
        vs = vs[:max(1, nv - k)] + rng.sample(ADV_VARS, k)
        if rng.random() < 0.3:
            # a run of names the binarisation would allocate next (a grammar built from an earlier normal form)
            vs = vs[:max(1, nv - 2)] + ["C#CNF#1", "C#CNF#2"] + (["C#CNF#3"] if rng.random() < 0.4 else [])
        if rng.random() < 0.5:
            ts = ts[:max(1, nt - 1)] + rng.sample(ADV_TERS, 1)
        if rng.random() < 0.3:
            # a terminal and a variable with the same value are different symbols (repaired: Variable.__eq__)
            # (not a name ending in #CNF#: which of two terminals gets the shorter lifted name depends on set order)
            ts = ts + [rng.choice([v for v in vs if "#CNF#" not in v] or ["S"])]
    nprod = rng.randint(1, max_prods)
    prods = []
    for _ in range(nprod):
        head = rng.choice(vs) if rng.random() < 0.8 else vs[0]
        r = rng.random()
        if r < (0.15 if eps else 0.0):
            body = []
        elif r < 0.3:
            body = [["v", rng.choice(vs)]]
        elif r < 0.5:
            body = [["t", rng.choice(ts)]]
        else:
            ln = rng.choice([2, 2, 2, 3, 3, 4])
            body = []
            for _ in range(ln):
                if rng.random() < 0.5:
                    body.append(["v", rng.choice(vs)])
                else:
                    body.append(["t", rng.choice(ts)])
        prods.append([head, body])
    extra_vars = [v for v in vs if rng.random() < 0.2]
    extra_ters = [t for t in ts if rng.random() < 0.2]
    start = vs[0] if rng.random() < 0.95 else rng.choice(vs)
    return {"vars": extra_vars, "ters": extra_ters, "start": start, "prods": prods,
            "as_list": rng.random() < 0.3}


def sym(obj):
    k, v = obj
    return Variable(v) if k == "v" else Terminal(v)


def build(spec):
    prods = [Production(Variable(h), [sym(x) for x in b]) for h, b in spec["prods"]]
    if not spec.get("as_list"):
        prods = set(prods)
    return CFG(variables={Variable(v) for v in spec["vars"]}, terminals={Terminal(t) for t in spec["ters"]},
               start_symbol=(Variable(spec["start"]) if spec["start"] is not None else None),
               productions=prods)


def xsym(x):
    if isinstance(x, Variable):
        return ["v", x.value]
    return ["t", x.value]


def extract(cfg):
    """model-format grammar in the implementation's iteration order (values must be str)"""
    start = cfg.start_symbol.value if cfg.start_symbol is not None else None
    out = {"vars": [v.value for v in cfg.variables], "ters": [t.value for t in cfg.terminals],
           "start": start, "prods": [[p.head.value, [xsym(x) for x in p.body]] for p in cfg.productions]}
    for x in out["vars"] + out["ters"] + ([start] if start is not None else []):
        if not isinstance(x, str):
            raise TypeError("non-string symbol value")
    return out


def canon(g, fields=("vars", "ters", "start", "prods")):
    c = {"vars": sorted(set(g["vars"])), "ters": sorted(set(g["ters"])), "start": g["start"],
         "prods": sorted({(h, tuple((k, v) for k, v in b)) for h, b in g["prods"]})}
    return {f: c[f] for f in fields}


def same(a, b, fields=("vars", "ters", "start", "prods")):
    ca, cb = canon(a, fields), canon(b, fields)
    return [f for f in fields if ca[f] != cb[f]]


def words_upto(ters, n):
    out = [[]]
    for length in range(1, n + 1):
        out.extend(list(w) for w in itertools.product(ters, repeat=length))
    return out


def is_nontrivial(spec):
    return len(spec["prods"]) >= 2 and any(len(b) >= 2 for _, b in spec["prods"])


def disjoint_names(g):
    return not (set(g["vars"]) & set(g["ters"]))


def sym_key(s):
    return (s[0], s[1])


def canon_cnf_names(g, source_vars):
    """rename the fresh binarisation variables C#CNF#k (numbering depends on set order) by the
    symbol string they stand for"""
    fresh = {v for v in g["vars"] if v.startswith("C#CNF#") and v not in source_vars}
    defs = {}
    for h, b in g["prods"]:
        if h in fresh:
            defs.setdefault(h, []).append(b)
    memo = {}

    def expand(v, depth=0):
        if v in memo:
            return memo[v]
        if v not in fresh or len(defs.get(v, [])) != 1 or depth > 50:
            return [v]
        out = []
        for k, x in defs[v][0]:
            out += expand(x, depth + 1) if k == "v" else ["'" + x]
        memo[v] = out
        return out
    ren = {v: "<" + " ".join(expand(v)) + ">" for v in fresh}
    rs = lambda k, x: [k, ren.get(x, x)] if k == "v" else [k, x]  # noqa: E731
    return {"vars": [ren.get(v, v) for v in g["vars"]], "ters": g["ters"], "start": g["start"],
            "prods": [[ren.get(h, h), [rs(k, x) for k, x in b]] for h, b in g["prods"]]}


def counter_tie(cfg, drv, res, op="get_generating_symbols"):
    """Step-level tie of the counter worklist behind get_generating_symbols / get_nullable_symbols
    (Pfl.CFG.buildTables / genCounters): after any history of calls the cached `_remaining_lists`
    and `_impacts` must be exactly the tables of a fresh grammar, and the symbols found the model's."""
    rem_impl = getattr(cfg, "_remaining_lists", None)
    imp_impl = getattr(cfg, "_impacts", None)
    if rem_impl is None or imp_impl is None:
        res.tag("counter_tables_absent")
        return
    g = extract(cfg)
    for nullable, pyname in ((False, "get_generating_symbols"), (True, "get_nullable_symbols")):
        m = drv.call("cfg.counters", G=g, nullable=nullable)
        res.corr += 1
        rem0 = {h: l for h, l in m["rem0"]}
        got_rem = {getattr(h, "value", h): list(l) for h, l in rem_impl.items()}
        if got_rem != rem0:
            res.corr_break(op, "cached production counters differ from a fresh grammar's (not restored?)",
                           detail={"impl": got_rem, "model": rem0})
            return
        if {h: l for h, l in m["rem"]} != rem0:
            res.corr_break(op, "model counters not restored", detail={"model": m["rem"]})
        imp = {}
        for s, h, i in m["imp"]:
            imp.setdefault(tuple(s), []).append((h, i))
        got_imp = {tuple(xsym(s)): [(h.value, i) for h, i in l] for s, l in imp_impl.items()}
        if got_imp != imp:
            res.corr_break(op, "cached impact lists differ from the model",
                           detail={"impl": str(got_imp), "model": str(imp)})
            return
        fresh = outcome_set(lambda: getattr(cfg, "_get_generating_or_nullable")(nullable))
        if fresh is not None and fresh != sorted({tuple(s) for s in m["found"]}):
            res.corr_break(pyname, "worklist result differs from the counter model",
                           detail={"impl": fresh, "model": m["found"]})
    res.tag("counter_tie")


def outcome_set(fn):
    try:
        return sorted({tuple(xsym(x)) for x in fn()})
    except Exception:  # pylint: disable=broad-except
        return None
