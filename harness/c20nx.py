"""C20 - to_networkx / from_networkx against the Lean model (Pfl/Model/Networkx.lean): the exported graph
(nodes with the attributes the import reads, parallel edges, labels) is compared with the model's export,
and the import of exported and of perturbed graphs (attributes removed, extra decoration nodes and unlabelled
edges, labels swapped or made unreadable) with the model's import; the round trip itself must reproduce
states, markings and transitions (Lean: FA.roundtrip, PDA.roundtrip, FST.roundtrip)."""
import json
import networkx as nx
from pyformlang.finite_automaton import EpsilonNFA
from pyformlang.pda import PDA
from pyformlang.fst import FST
from .core import outcome

# state names that coincide with decoration nodes of the export are ordinary names
STATE_POOL = ["q0", "q1", "q2", 0, 1, "0", "starting_q0", "starting_0", "INITIAL_STACK_HIDDEN", "starting_"]
SYM_POOL = ["a", "b", 0, 1, "0", "a b", "x->y", "[", "é"]
STACK_POOL = ["Z", "X", 0, "y z", "1"]


def key(v):
    return (type(v).__name__, v)


def skey(vs):
    return sorted(vs, key=key)


def pick_states(rng, lo=1, hi=4):
    return rng.sample(STATE_POOL, rng.randint(lo, hi))


# ---------------------------------------------------------------------------------------------- generators

def gen_fa(rng):
    states = pick_states(rng)
    syms = rng.sample(SYM_POOL, rng.randint(1, 3))
    delta = []
    for _ in range(rng.randint(0, 6)):
        delta.append([rng.choice(states), None if rng.random() < 0.2 else rng.choice(syms), rng.choice(states)])
    return {"states": states, "starts": [q for q in states if rng.random() < 0.4],
            "finals": [q for q in states if rng.random() < 0.4], "delta": delta, "perturb": rng.randrange(1 << 30)}


def gen_pda(rng):
    states = pick_states(rng)
    syms = rng.sample(SYM_POOL, rng.randint(1, 3))
    stack = rng.sample(STACK_POOL, rng.randint(1, 3))
    delta = []
    for _ in range(rng.randint(0, 6)):
        delta.append([rng.choice(states), "epsilon" if rng.random() < 0.2 else rng.choice(syms), rng.choice(stack),
                      rng.choice(states), [rng.choice(stack) for _ in range(rng.choice([0, 1, 1, 2, 3]))]])
    return {"states": states, "start": rng.choice(states + [None]), "startStack": rng.choice(stack + [None]),
            "finals": [q for q in states if rng.random() < 0.4], "delta": delta, "perturb": rng.randrange(1 << 30)}


def gen_fst(rng):
    states = pick_states(rng)
    syms = rng.sample(SYM_POOL, rng.randint(1, 3))
    outs = rng.sample(SYM_POOL, rng.randint(1, 3))
    delta = []
    for _ in range(rng.randint(1, 6)):
        delta.append([rng.choice(states), "epsilon" if rng.random() < 0.2 else rng.choice(syms), rng.choice(states),
                      [rng.choice(outs) for _ in range(rng.choice([0, 1, 1, 2]))]])
    return {"starts": [q for q in states if rng.random() < 0.4], "finals": [q for q in states if rng.random() < 0.4],
            "delta": delta, "perturb": rng.randrange(1 << 30)}


def gen(rng):
    return {"fa": gen_fa(rng), "pda": gen_pda(rng), "fst": gen_fst(rng)}


# ---------------------------------------------------------------------------------------------- builders / extraction

def build_fa(spec):
    a = EpsilonNFA(states=set(spec["states"]))
    for q in spec["starts"]:
        a.add_start_state(q)
    for q in spec["finals"]:
        a.add_final_state(q)
    for q, s, r in spec["delta"]:
        a.add_transition(q, "epsilon" if s is None else s, r)
    return a


def x_fa(a):
    delta = []
    for q, s, r in a._transition_function.get_edges():  # pylint: disable=protected-access
        delta.append([q.value, None if s.value == "epsilon" else s.value, r.value])
    return {"states": [q.value for q in a.states], "starts": [q.value for q in a.start_states],
            "finals": [q.value for q in a.final_states], "delta": delta}


def build_pda(spec):
    p = PDA(states=set(spec["states"]), final_states=set(spec["finals"]))
    if spec["start"] is not None:
        p.set_start_state(spec["start"])
    if spec["startStack"] is not None:
        p.set_start_stack_symbol(spec["startStack"])
    for q, a, x, r, w in spec["delta"]:
        p.add_transition(q, a, x, r, list(w))
    return p


def x_pda(p):
    delta = []
    for k, v in p._transition_function:  # pylint: disable=protected-access
        delta.append([k[0].value, k[1].value, k[2].value, v[0].value, [y.value for y in v[1]]])
    st = p.start_state
    ss = p._start_stack_symbol  # pylint: disable=protected-access
    return {"states": [q.value for q in p.states], "start": None if st is None else st.value,
            "startStack": None if ss is None else ss.value, "finals": [q.value for q in p.final_states], "delta": delta}


def build_fst(spec):
    t = FST()
    for q in spec["starts"]:
        t.add_start_state(q)
    for q in spec["finals"]:
        t.add_final_state(q)
    for q, a, r, w in spec["delta"]:
        t.add_transition(q, a, r, list(w))
    return t


def x_fst(t):
    delta = []
    for (q, a), outs in t._delta.items():  # pylint: disable=protected-access
        for r, w in outs:
            delta.append([q, a, r, list(w)])
    return {"states": list(t.states), "starts": list(t.start_states), "finals": list(t.final_states), "delta": delta}


def x_graph(g):
    nodes = []
    for n in g.nodes:
        a = g.nodes[n]
        lab = a.get("label")
        nodes.append([n, {"isStart": a.get("is_start"), "isFinal": a.get("is_final"), "initialStack": a.get("initial_stack"),
                          "label": lab if isinstance(lab, (int, str)) and not isinstance(lab, bool) else None}])
    edges = [[u, v, d.get("label")] for u, v, d in g.edges(data=True)]
    return {"nodes": nodes, "edges": edges}


def c_graph(g):
    return {"nodes": sorted(((key(n), sorted((k, json.dumps(v)) for k, v in a.items() if v is not None)) for n, a in g["nodes"])),
            "edges": sorted((key(u), key(v), "" if l is None else "L:" + json.dumps(l)) for u, v, l in g["edges"])}


def c_machine(m, fields):
    out = {}
    for f in fields:
        v = m[f]
        if f == "delta":
            out[f] = sorted({json.dumps([[type(x).__name__, x] if not isinstance(x, list) else x for x in t]) for t in v})
        elif isinstance(v, list):
            out[f] = sorted({key(x) for x in v})
        else:
            out[f] = None if v is None else key(v)
    return out


def tables(values, lists):
    seen, d = [], []
    for v in values:
        if key(v) not in seen:
            seen.append(key(v))
            d.append([v, json.dumps(v)])
    dl, seenl = [], []
    for l in lists:
        k = json.dumps(l)
        if k not in seenl:
            seenl.append(k)
            dl.append([list(l), k])
    return d, dl


def perturb(g, rng):
    """changes a networkx graph the way a hand-edited / foreign graph differs from an exported one"""
    import random
    r = random.Random(rng)
    nodes = list(g.nodes)
    for _ in range(r.randint(0, 3)):
        c = r.randrange(9)
        if c == 0 and nodes:
            g.nodes[r.choice(nodes)].pop("is_final", None)
        elif c == 1 and nodes:
            g.nodes[r.choice(nodes)].pop("is_start", None)
        elif c == 2 and nodes:
            g.add_edge(r.choice(nodes), r.choice(nodes))
        elif c == 3:
            g.add_node("extra", is_start=r.random() < 0.5)
        elif c == 4 and nodes:
            g.add_node("starting_" + str(r.choice(nodes)), label="")
        elif c == 5 and g.number_of_edges():
            u, v, k = r.choice(list(g.edges(keys=True)))
            g.edges[u, v, k].pop("label", None)
        elif c == 8:
            # a graph written before the attribute `initial_stack` existed
            for n in nodes:
                g.nodes[n].pop("initial_stack", None)
        elif c == 7 and g.number_of_edges():
            u, v, k = r.choice(list(g.edges(keys=True)))
            g.edges[u, v, k]["label"] = "junk"
        elif c == 6 and g.number_of_edges() >= 2:
            e1, e2 = r.sample(list(g.edges(keys=True)), 2)
            l1, l2 = g.edges[e1].get("label"), g.edges[e2].get("label")
            if l1 is not None and l2 is not None:
                g.edges[e1]["label"], g.edges[e2]["label"] = l2, l1
    return g


# ---------------------------------------------------------------------------------------------- the three classes

def check_class(res, drv, name, build, extract, cls, export_op, import_op, payload_key, fields, spec, with_tables):
    st, m = outcome(lambda: build(spec))
    if st != "ok":
        res.tag(name + "_build_fail")
        return
    st, desc = outcome(lambda: extract(m))
    if st != "ok":
        res.tag(name + "_extract_fail")
        return
    extra = {}
    if with_tables:
        vals = [x for t in desc["delta"] for x in ([t[1], t[2]] if name == "pda" else [t[1]])]
        if name == "pda" and desc["startStack"] is not None:
            vals.append(desc["startStack"])
        d, dl = tables(vals, [t[-1] for t in desc["delta"]])
        extra = {"dumps": d, "dumpsL": dl}
    # ---- export --------------------------------------------------------------------------------
    st, g = outcome(m.to_networkx)
    res.evals += 1
    if st != "ok":
        res.violation(name + ".networkx", "to_networkx raised %s" % (g,), detail={"machine": desc})
        return
    mg = drv.call(export_op, **{payload_key: desc}, **extra)
    res.corr += 1
    if c_graph(x_graph(g)) != c_graph(mg):
        res.corr_break(name + ".networkx", "exported graph differs from the model",
                       detail={"machine": desc, "impl": x_graph(g), "model": mg})
    # ---- round trip ------------------------------------------------------------------------------
    got = outcome(lambda: extract(cls.from_networkx(m.to_networkx())))
    res.evals += 1
    if got[0] != "ok":
        res.violation(name + ".networkx", "round trip raised %s" % (got[1],), detail={"machine": desc})
    elif c_machine(got[1], fields) != c_machine(desc, fields):
        diff = [f for f in fields if c_machine(got[1], [f]) != c_machine(desc, [f])]
        res.violation(name + ".networkx", "round trip changed %s" % diff, detail={"before": desc, "after": got[1]})
    # ---- import of a perturbed graph -------------------------------------------------------------
    st, g2 = outcome(lambda: perturb(m.to_networkx(), spec["perturb"]))
    if st != "ok":
        return
    gj = x_graph(g2)
    got = outcome(lambda: extract(cls.from_networkx(g2)))
    mi = drv.call(import_op, G=gj, **extra)
    res.corr += 1
    if got[0] != "ok":
        if mi is not None:
            res.corr_break(name + ".networkx", "import raised %s, the model imports" % (got[1],),
                           detail={"graph": gj, "model": mi})
    elif mi is None:
        res.corr_break(name + ".networkx", "import succeeded, the model raises", detail={"graph": gj, "impl": got[1]})
    elif c_machine(got[1], fields) != c_machine(mi, fields):
        diff = [f for f in fields if c_machine(got[1], [f]) != c_machine(mi, [f])]
        res.corr_break(name + ".networkx", "imported machine differs from the model in %s" % diff,
                       detail={"graph": gj, "impl": got[1], "model": mi})


def run(case, drv, res):
    check_class(res, drv, "fa", build_fa, x_fa, EpsilonNFA, "nx.faExport", "nx.faImport", "A",
                ("states", "starts", "finals", "delta"), case["fa"], False)
    check_class(res, drv, "pda", build_pda, x_pda, PDA, "nx.pdaExport", "nx.pdaImport", "P",
                ("states", "start", "startStack", "finals", "delta"), case["pda"], True)
    check_class(res, drv, "fst", build_fst, x_fst, FST, "nx.fstExport", "nx.fstImport", "T",
                ("states", "starts", "finals", "delta"), case["fst"], True)
    res.tag("networkx_model_tie")
