"""One worker process: own PYTHONHASHSEED, own driver, runs corpus + generated cases."""
import argparse
import importlib
import json
import os
import random
import sys
import time
import traceback

from .core import Drv, DrvError, case_key, CaseResult


def load_prop(pid):
    return importlib.import_module("harness.props." + pid.lower())


def run_one(mod, case, drv):
    try:
        return mod.run_case(case, drv)
    except DrvError as exc:
        res = CaseResult()
        res.findings = []
        res.tag("drv_error")
        res.infra = str(exc)
        return res


def main():
    ap = argparse.ArgumentParser()
    ap.add_argument("--prop", required=True)
    ap.add_argument("--seed", type=int, default=0)
    ap.add_argument("--wid", type=int, default=0)
    ap.add_argument("--nworkers", type=int, default=1)
    ap.add_argument("--tier", default="quick")
    ap.add_argument("--budget", type=float, default=30.0)
    ap.add_argument("--max-cases", type=int, default=10 ** 9)
    ap.add_argument("--out", required=True)
    ap.add_argument("--cases", help="JSON file with explicit cases (corpus / replay)")
    args = ap.parse_args()

    import pyformlang
    mod = load_prop(args.prop)
    drv = Drv()
    t0 = time.time()
    out = {"wid": args.wid, "hashseed": os.environ.get("PYTHONHASHSEED"), "cases": 0, "evals": 0,
           "corr": 0, "tags": {}, "keys": [], "findings": [], "samples": [], "infra": [],
           "pyformlang": os.path.dirname(pyformlang.__file__), "exhaustive_done": False}
    keys = set()

    def account(case, res, origin):
        out["cases"] += 1
        out["evals"] += res.evals
        out["corr"] += res.corr
        for k, v in res.tags.items():
            out["tags"][k] = out["tags"].get(k, 0) + v
        key = case_key(case)
        if res.nontrivial and key not in keys:
            keys.add(key)
        if len(out["samples"]) < 2 and res.nontrivial:
            out["samples"].append(case)
        if getattr(res, "infra", None):
            out["infra"].append(res.infra)
        for f in res.findings:
            j = f.to_json()
            j["case"] = case
            j["origin"] = origin
            out["findings"].append(j)

    try:
        if args.cases:
            for case in json.load(open(args.cases)):
                account(case, run_one(mod, case, drv), "given")
        else:
            rng = random.Random("%d/%d/%s" % (args.seed, args.wid, args.prop))
            # exhaustive small-scope part is sharded over the workers
            exh = getattr(mod, "exhaustive", None)
            if exh is not None:
                done = True
                for i, case in enumerate(exh(args.tier)):
                    if i % args.nworkers != args.wid:
                        continue
                    if time.time() - t0 > args.budget * 0.7:
                        done = False
                        break
                    account(case, run_one(mod, case, drv), "exhaustive")
                out["exhaustive_done"] = done
            gen = mod.generate(rng, args.tier)
            while time.time() - t0 < args.budget and out["cases"] < args.max_cases:
                case = next(gen)
                account(case, run_one(mod, case, drv), "random")
                if len(out["findings"]) > 3000:
                    break
    except Exception:  # pylint: disable=broad-except
        out["infra"].append(traceback.format_exc())
    finally:
        drv.close()
    out["keys"] = sorted(keys)
    out["wall"] = time.time() - t0
    with open(args.out, "w") as fh:
        json.dump(out, fh, default=str)


if __name__ == "__main__":
    main()
