"""C19 - an automaton object as a state machine (Pfl/Model/FAObject.lean): a history of public mutator calls
(add / remove transition incl. re-adding on an emptied entry, start and final marks, symbols) on one EpsilonNFA /
NFA / DFA object.  After every call the returned integer or the exception class and the private fields
(`_transitions` as the dict of dicts it is - key order, entries emptied by removals -, `_states`,
`_input_symbols`, `_start_state`, `_final_states`) are compared with the model; the table queries
(`get_number_transitions`, `is_deterministic` of the transition function, `fa(q, a)`) are compared with the
model's, and the public queries are compared with a fresh object that only ever received the transitions
present now (two runs of the real code certify a dependence on history)."""
from pyformlang.finite_automaton import (EpsilonNFA, NondeterministicFiniteAutomaton, DeterministicFiniteAutomaton,
                                         Epsilon, State)
from .core import outcome

STATES = ["q0", "q1", 2, "q3"]
SYMS = ["a", "b"]
WORDS = [[], ["a"], ["b"], ["a", "a"], ["a", "b"], ["b", "a"], ["b", "b"], ["a", "b", "a"]]


def gen_history(rng):
    cls = rng.choice(["E", "E", "N", "D"])
    ops = []
    present = []
    removed = []
    n = rng.randint(4, 14)
    while len(ops) < n:
        r = rng.random()
        if r < 0.45:
            if removed and rng.random() < 0.5:
                # back on an entry that a removal emptied: same (state, symbol), any target
                q, a, _ = rng.choice(removed)
                t = [q, a, rng.randrange(len(STATES))]
            elif present and rng.random() < 0.3:
                q, a, _ = rng.choice(present)       # a second target for an existing pair
                t = [q, a, rng.randrange(len(STATES))]
            else:
                a = None if (cls != "N" and rng.random() < 0.25) else rng.randrange(len(SYMS))
                t = [rng.randrange(len(STATES)), a, rng.randrange(len(STATES))]
            ops.append(["add_t"] + t)
            if t not in present:
                present.append(t)
        elif r < 0.7:
            if present and rng.random() < 0.8:
                t = present.pop(rng.randrange(len(present)))
                removed.append(t)
            else:
                t = [rng.randrange(len(STATES)), rng.randrange(len(SYMS)), rng.randrange(len(STATES))]
            ops.append(["rm_t"] + t)
        elif r < 0.78:
            ops.append(["add_s", rng.randrange(len(STATES))])
        elif r < 0.84:
            ops.append(["rm_s", rng.randrange(len(STATES))])
        elif r < 0.91:
            ops.append(["add_f", rng.randrange(len(STATES))])
        elif r < 0.96:
            ops.append(["rm_f", rng.randrange(len(STATES))])
        else:
            ops.append(["add_y", rng.randrange(len(SYMS))])
    init = None
    if rng.random() < 0.3:
        # the constructor called with sets (no transition function)
        k = len(STATES)
        init = {"states": rng.sample(range(k), rng.randint(0, 2)), "syms": rng.sample(range(len(SYMS)), rng.randint(0, 2)),
                "starts": rng.sample(range(k), rng.randint(0, 1 if cls == "D" else 2)),
                "finals": rng.sample(range(k), rng.randint(0, 2))}
        if rng.random() < 0.5:
            # a transition function filled beforehand and handed to the constructor
            tf = []
            for _ in range(rng.randint(1, 3)):
                a = None if (cls == "E" and rng.random() < 0.25) else rng.randrange(len(SYMS))
                t = [rng.randrange(k), a, rng.randrange(k)]
                if cls == "D" and any(u[0] == t[0] and u[1] == t[1] for u in tf):
                    continue
                tf.append(t)
            init["tf"] = tf
    return {"cls": cls, "ops": ops, "init": init}


def new(cls, init=None):
    klass = {"E": EpsilonNFA, "N": NondeterministicFiniteAutomaton, "D": DeterministicFiniteAutomaton}[cls]
    if init is None:
        return klass()
    states = {STATES[q] for q in init["states"]}
    syms = {SYMS[a] for a in init["syms"]}
    finals = {STATES[q] for q in init["finals"]}
    kw = {}
    if init.get("tf"):
        from pyformlang.finite_automaton import TransitionFunction, NondeterministicTransitionFunction, Symbol
        tf = TransitionFunction() if cls == "D" else NondeterministicTransitionFunction()
        for q, a, r in init["tf"]:
            tf.add_transition(State(STATES[q]), Epsilon() if a is None else Symbol(SYMS[a]), State(STATES[r]))
        kw["transition_function"] = tf
    if cls == "D":
        return klass(states=states, input_symbols=syms, start_state=(STATES[init["starts"][0]] if init["starts"] else None),
                     final_states=finals, **kw)
    return klass(states=states, input_symbols=syms, start_state={STATES[q] for q in init["starts"]}, final_states=finals,
                 **kw)


def sym(a):
    return Epsilon() if a is None else SYMS[a]


def apply_mut(fa, op):
    k = op[0]
    if k == "add_t":
        return fa.add_transition(STATES[op[1]], sym(op[2]), STATES[op[3]])
    if k == "rm_t":
        return fa.remove_transition(STATES[op[1]], sym(op[2]), STATES[op[3]])
    if k == "add_s":
        return fa.add_start_state(STATES[op[1]])
    if k == "rm_s":
        return fa.remove_start_state(STATES[op[1]])
    if k == "add_f":
        return fa.add_final_state(STATES[op[1]])
    if k == "rm_f":
        return fa.remove_final_state(STATES[op[1]])
    fa.add_symbol(SYMS[op[1]])
    return 0


def scode(s):
    return STATES.index(s.value if isinstance(s, State) else s)


def ycode(y):
    return None if isinstance(y, Epsilon) else SYMS.index(y.value)


def hidden(fa):
    table = getattr(getattr(fa, "_transition_function"), "_transitions")
    trans = []
    for q, row in table.items():
        r = []
        for y, tos in row.items():
            r.append([ycode(y), sorted(scode(t) for t in tos) if isinstance(tos, (set, frozenset, list)) else [scode(tos)]])
        trans.append([scode(q), r])
    return {"trans": trans, "states": sorted(scode(s) for s in getattr(fa, "_states")),
            "syms": sorted(ycode(y) for y in getattr(fa, "_input_symbols")),
            "starts": sorted(scode(s) for s in getattr(fa, "_start_state")),
            "finals": sorted(scode(s) for s in getattr(fa, "_final_states"))}


def public_sig(fa, cls):
    """what a user can ask"""
    out = {"n": fa.get_number_transitions(), "acc": [fa.accepts(w) for w in WORDS], "empty": fa.is_empty(),
           "det": fa.is_deterministic(),
           "call": sorted((q, a, sorted(scode(t) for t in fa(STATES[q], sym(a))))
                          for q in range(len(STATES)) for a in list(range(len(SYMS))) + ([None] if cls == "E" else []))}
    return out


def fresh_from(fa, cls):
    g = new(cls)
    for s in fa.states:
        g.states.add(s)
    for s in fa.start_states:
        g.add_start_state(s)
    for s in fa.final_states:
        g.add_final_state(s)
    for q, by in fa.to_dict().items():
        for y, tos in by.items():
            for t in (tos if isinstance(tos, (set, frozenset, list)) else [tos]):
                g.add_transition(q, y, t)
    for y in fa.symbols:
        g.add_symbol(y)
    return g


def run_history(case, drv, res):
    cls, ops = case["cls"], case["ops"]
    init = case.get("init")
    st, fa = outcome(lambda: new(cls, init))
    if st != "ok":
        res.tag("constructor_raised")
        return
    kw = {}
    if init is not None:
        minit = {k: init[k] for k in ("states", "syms", "starts", "finals")}
        if init.get("tf"):
            st, h = outcome(lambda: hidden(fa))
            if st != "ok":
                res.tag("hidden_unreadable")
                return
            minit["trans"] = h["trans"]      # the table as the transition function holds it (filled before the constructor)
        kw = {"init": minit}
    answer = drv.call("fa.objRun", det=(cls == "D"), ops=ops, **kw)
    model = answer["steps"]
    st, h0 = outcome(lambda: hidden(fa))
    res.corr += 1
    m0 = answer["init"]
    if st != "ok" or h0["trans"] != [[q, [[a, sorted(ts)] for a, ts in row]] for q, row in m0["trans"]] or any(h0[k] != sorted(m0[k], key=lambda x: (x is None, x))
                                              for k in ("states", "syms", "starts", "finals")):
        res.corr_break("fa.__init__", "object after the constructor differs from the object model",
                       detail={"cls": cls, "init": init, "impl": str(h0)[:300], "model": str(m0)[:300]})
        return
    res.nontrivial = len(ops) >= 6 and len({o[0] for o in ops}) >= 3
    broken = None
    for idx, op in enumerate(ops):
        name = "fa." + {"add_t": "add_transition", "rm_t": "remove_transition", "add_s": "add_start_state",
                        "rm_s": "remove_start_state", "add_f": "add_final_state", "rm_f": "remove_final_state",
                        "add_y": "add_symbol"}[op[0]]
        got = outcome(lambda: apply_mut(fa, op))
        if got[0] == "timeout":
            res.tag("timeout")
            return
        m = model[idx]
        if broken is None:
            res.corr += 1
            if got[0] == "exc":
                if m.get("err") != got[1]:
                    broken = (name, "raised %s, model: %s" % (got[1], m.get("err", "returns %s" % m.get("out"))), idx)
            elif "err" in m:
                broken = (name, "returned %s, model raises %s" % (got[1], m["err"]), idx)
            elif op[0] != "add_y" and got[1] != m["out"]:
                broken = (name, "returned %s, model %s" % (got[1], m["out"]), idx)
        if broken is None:
            st, h = outcome(lambda: hidden(fa))
            if st != "ok":
                broken = (name, "private fields cannot be read as the model describes them", idx)
            else:
                mo = m["obj"]
                res.corr += 1
                mt = [[q, [[a, sorted(ts)] for a, ts in row]] for q, row in mo["trans"]]
                if h["trans"] != mt:
                    broken = (name, "_transitions differs from the model (dict order, emptied entries included)", idx)
                else:
                    for k in ("states", "syms", "starts", "finals"):
                        if h[k] != sorted(mo[k], key=lambda x: (x is None, x)):
                            broken = (name, "_%s differs from the model" % k, idx)
                            break
            if broken is None:
                # the table queries against the model's
                st, q = outcome(lambda: (fa.get_number_transitions(),
                                         getattr(fa, "_transition_function").is_deterministic()
                                         if hasattr(getattr(fa, "_transition_function"), "is_deterministic") else None))
                res.corr += 1
                if st != "ok" or q[0] != m["obj"]["num"] or (q[1] is not None and q[1] != m["obj"]["tfdet"]):
                    broken = (name, "get_number_transitions / is_deterministic of the table differ from the model: %s" % (q,), idx)
        # ---- certified: the object against a fresh one that only received what is present now ----------------
        if idx == len(ops) - 1 or idx % 3 == 2 or broken is not None:
            st, g = outcome(lambda: fresh_from(fa, cls))
            if st == "ok":
                a = outcome(lambda: public_sig(fa, cls), limit=8.0)
                b = outcome(lambda: public_sig(g, cls), limit=8.0)
                res.evals += 1
                if a != b and "timeout" not in (a[0], b[0]):
                    res.violation(name, "an edited automaton answers differently from a fresh automaton with the same "
                                  "states, marks and transitions", detail={"cls": cls, "step": idx, "history": ops[:idx + 1],
                                                                          "with_history": str(a)[:400], "fresh": str(b)[:400]})
                    return
        if broken is not None and idx == len(ops) - 1:
            break
    if broken is not None:
        res.corr_break(broken[0], "automaton object differs from the object model: %s" % broken[1],
                       detail={"cls": cls, "step": broken[2], "history": ops[:broken[2] + 1]})
        return
    res.tag("fa_object_history_" + cls)
