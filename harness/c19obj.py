"""C19 - a CFG object as a state machine (Pfl/Model/CFGObject.lean): a history of public calls on one
grammar object; after every call the answer and the hidden state (`_remaining_lists`, `_generating_symbols`,
`_nullable_symbols`, `_normal_form`) are compared with the model's, and the answer with the answer of a
freshly built equal object (the two runs of the real code certify a dependence on history)."""
import itertools
from . import cfgdom as G
from .core import outcome

OPS = ["generating", "nullable", "isEmpty", "generateEpsilon", "removeUseless", "removeEpsilon", "normalForm",
       "contains", "getWords", "isFinite"]
PYNAME = {"generating": "get_generating_symbols", "nullable": "get_nullable_symbols", "isEmpty": "is_empty",
          "generateEpsilon": "generate_epsilon", "removeUseless": "remove_useless_symbols",
          "removeEpsilon": "remove_epsilon", "normalForm": "to_normal_form", "contains": "contains",
          "getWords": "get_words", "isFinite": "is_finite"}


def gen_history(rng):
    spec = G.gen_cfg(rng, max_vars=3, max_prods=6, adversarial=False)
    if rng.random() < 0.3:
        # a body that repeats a nullable variable next to a non-nullable symbol: the counters of such a production
        # are touched several times by one run
        vs = sorted({h for h, _ in spec["prods"]})
        a = rng.choice(vs)
        spec["prods"].append([a, []])
        spec["prods"].append([spec["start"], [["v", a], ["v", a], rng.choice([["t", "b"], ["v", rng.choice(vs)]])]])
    ters = sorted({x for _, b in spec["prods"] for k, x in b if k == "t"}) or ["a"]
    ops = []
    for _ in range(rng.randint(3, 12)):
        name = rng.choice(OPS)
        op = {"op": name}
        if name == "contains":
            op["w"] = [rng.choice(ters) for _ in range(rng.choice([0, 1, 1, 2, 2, 3]))]
        if name == "getWords":
            op["max"] = rng.choice([0, 1, 2, 3])
        ops.append(op)
    return {"g": spec, "ops": ops}


def symset(xs):
    return sorted({tuple(G.xsym(x)) for x in xs})


def call(cfg, op):
    """the public call; returns a comparable value"""
    name = op["op"]
    if name in ("generating", "nullable"):
        return symset(getattr(cfg, PYNAME[name])())
    if name in ("isEmpty", "generateEpsilon", "isFinite"):
        return getattr(cfg, PYNAME[name])()
    if name in ("removeUseless", "removeEpsilon", "normalForm"):
        return G.extract(getattr(cfg, PYNAME[name])())
    if name == "contains":
        return cfg.contains(list(op["w"]))
    if name == "getWords":
        return sorted([x.value for x in w] for w in itertools.islice(cfg.get_words(op["max"]), 3000))
    raise ValueError(name)


def same_out(drv, g, op, got, model):
    """None when the implementation's answer is the model's, else a description"""
    name = op["op"]
    if name in ("generating", "nullable"):
        return None if got == sorted({tuple(s) for s in model}) else "symbol set differs"
    if name in ("isEmpty", "generateEpsilon", "isFinite", "contains"):
        return None if got == model else "boolean differs"
    if name in ("removeUseless", "removeEpsilon"):
        d = G.same(got, model, ("start", "prods"))
        return None if not d else "grammar differs: %s" % d
    if name == "normalForm":
        return cnf_diff(drv, g, got, model)
    if name == "getWords":
        return None if got == sorted(model) else "multiset of words differs"
    return None


def cnf_diff(drv, g, got, model):
    base = drv.call("cfg.transform", G=g, kind="cnfBase")
    keep = base["vars"] if base is not None else g["vars"]
    d = G.same(G.canon_cnf_names(got, keep), G.canon_cnf_names(model, keep), ("start", "prods"))
    return None if not d else "normal form differs: %s" % d


def hidden(cfg):
    rem = getattr(cfg, "_remaining_lists")
    gen = getattr(cfg, "_generating_symbols")
    nul = getattr(cfg, "_nullable_symbols")
    nf = getattr(cfg, "_normal_form")
    return {"rem": None if rem is None else {getattr(h, "value", h): list(l) for h, l in rem.items()},
            "gen": None if gen is None else symset(gen), "nul": None if nul is None else symset(nul),
            "nf": None if nf is None else G.extract(nf)}


def state_diff(drv, g, impl, model):
    for k in ("rem", "gen", "nul", "nf"):
        if (impl[k] is None) != (model[k] is None):
            return "%s is %s in the implementation and %s in the model" % (
                k, "unset" if impl[k] is None else "set", "unset" if model[k] is None else "set")
    if impl["rem"] is not None and impl["rem"] != {h: l for h, l in model["rem"]}:
        return "cached production counters differ"
    for k in ("gen", "nul"):
        if impl[k] is not None and impl[k] != sorted({tuple(s) for s in model[k]}):
            return "cached %s symbols differ" % k
    if impl["nf"] is not None:
        return cnf_diff(drv, g, impl["nf"], model["nf"])
    return None


PROBES = [{"op": "generating"}, {"op": "nullable"}, {"op": "isEmpty"}, {"op": "generateEpsilon"},
          {"op": "removeUseless"}, {"op": "removeEpsilon"}, {"op": "normalForm"}, {"op": "isFinite"},
          {"op": "getWords", "max": 3}, {"op": "generating"}, {"op": "nullable"}]


def probe_continuations(spec, cfg, history, res, name):
    for op in PROBES:
        got = outcome(lambda: call(cfg, op), limit=8.0)
        st, fresh = outcome(lambda: G.build(spec))
        want = outcome(lambda: call(fresh, op), limit=8.0)
        history = history + [op]
        if "timeout" in (got[0], want[0]):
            return
        if got != want:
            res.violation(name, "answer depends on the call history",
                          detail={"op": op, "with_history": str(got)[:300], "fresh": str(want)[:300],
                                  "history": history})
            return


def run_history(case, drv, res):
    spec, ops = case["g"], case["ops"]
    st, cfg = outcome(lambda: G.build(spec))
    if st != "ok":
        res.tag("build_fail")
        return
    st, g = outcome(lambda: G.extract(cfg))
    if st != "ok":
        res.tag("extract_fail")
        return
    res.nontrivial = len(ops) >= 5 and len({o["op"] for o in ops}) >= 3
    model = drv.call("cfg.objRun", G=g, ops=ops)
    for idx, op in enumerate(ops):
        name = "g." + PYNAME[op["op"]]
        got = outcome(lambda: call(cfg, op), limit=8.0)
        st, fresh = outcome(lambda: G.build(spec))
        want = outcome(lambda: call(fresh, op), limit=8.0)
        res.evals += 1
        if got[0] == "timeout" or want[0] == "timeout":
            res.tag("timeout")
            return
        if got != want:
            res.violation(name, "answer depends on the call history",
                          detail={"step": idx, "op": op, "with_history": str(got)[:300], "fresh": str(want)[:300],
                                  "history": ops[:idx + 1]})
            return
        if idx >= len(model) or model[idx] is None:
            res.tag("model_fuel")
            return
        if got[0] != "ok":
            res.tag("raised")
            return
        res.corr += 1
        d = same_out(drv, g, op, got[1], model[idx]["out"])
        if d:
            res.corr_break(name, "answer differs from the object model: %s" % d,
                           detail={"step": idx, "history": ops[:idx + 1], "impl": str(got[1])[:300],
                                   "model": str(model[idx]["out"])[:300]})
            return
        st, h = outcome(lambda: hidden(cfg))
        if st != "ok":
            res.tag("hidden_unreadable")
            return
        res.corr += 1
        d = state_diff(drv, g, h, model[idx]["state"])
        if d:
            # the model no longer describes the object: look for a continuation of the history on which the
            # answers of the real object and of a fresh equal object differ (a certified failing history)
            probe_continuations(spec, cfg, ops[:idx + 1], res, name)
            res.corr_break(name, "hidden state after the call differs from the object model: %s" % d,
                           detail={"step": idx, "history": ops[:idx + 1], "impl": str(h)[:400],
                                   "model": str(model[idx]["state"])[:400]})
            return
    res.tag("object_history")
