"""C05 - regex text means what the documented grammar says, in every representation."""
import itertools
from pyformlang.regular_expression import Regex
from .. import rxdom as X
from .. import fa as F
from .. import cfgdom as G
from ..core import CaseResult, outcome

ID = "C05"
RULE = ("random regex ASTs (depth <=4; symbols of 1-3 characters, escaped operators, epsilon/$) rendered to text with "
        "minimal or redundant parentheses and random spellings of the operators, plus token-level mutations (dropped, "
        "duplicated, swapped tokens, unbalanced and empty parentheses) classified by a reference reading of the "
        "documented grammar; Regex(text) is compared with the Lean reader model (tree or exception class), its language "
        "with the intended AST by the verified equivalence oracle, accepts() on all words of length <=3 with the "
        "verified matcher, to_epsilon_nfa() structurally (state numbers included) with the Thompson model, to_cfg() "
        "through the CFG membership oracle, union/concatenate/kleene_star and the str() round trip through the "
        "equivalence oracle. Non-trivial: AST with >=2 operators of >=2 kinds.")
LEVEL = "proof"
THEOREMS = ["Pfl.RegexReader.parse_grammar",
            "Pfl.Rx.regexAccepts_iff",
            "Pfl.Rx.toCFG_lang",
            "Pfl.Rx.toCFG_wf",
            "Pfl.RegexReader.parse_repr",
            "Pfl.Rx.nullable_iff",
            "Pfl.Rx.deriv_iff",
            "Pfl.Rx.matches_iff",
            "Pfl.Rx.thompson_lang",
            "Pfl.Rx.thompson_counter",
            "Pfl.Rx.thompson_wf",
            "Pfl.Rx.alt_denote",
            "Pfl.Rx.cat_denote",
            "Pfl.Rx.star_denote",
            "Pfl.ENFA.langDiff_none_iff",
            "Pfl.ENFA.langDiff_some",
            "Pfl.CFG.cfgMem_iff"]


def mutate(rng, text):
    toks = X.tokens(text)
    if not toks:
        return "("
    k = rng.random()
    i = rng.randrange(len(toks))
    if k < 0.25:
        del toks[i]
    elif k < 0.45:
        toks.insert(i, toks[i])
    elif k < 0.6 and len(toks) > 1:
        j = rng.randrange(len(toks))
        toks[i], toks[j] = toks[j], toks[i]
    elif k < 0.8:
        toks.insert(i, rng.choice(["(", ")", "( )", "*", "|", "."]))
    else:
        toks.append(rng.choice(["|", "(", ")", "*", "+"]))
    return " ".join(toks)


def generate(rng, tier):
    while True:
        ast = X.gen_ast(rng, depth=rng.choice([1, 2, 3, 4]))
        text = X.render(ast, rng)
        if rng.random() < 0.25:
            yield {"text": mutate(rng, text), "ast": None}
        else:
            yield {"text": text, "ast": ast}


def nontrivial(ast):
    def ops(t):
        return ([t[0]] if t[0] in ("cat", "alt", "star") else []) + [o for x in t[1:] if isinstance(x, list) for o in ops(x)]
    o = ops(ast)
    return len(o) >= 2 and len(set(o)) >= 2


def run_case(case, drv):
    res = CaseResult()
    text = case["text"]
    ast = case["ast"]
    cls = "wellformed"
    if ast is None:
        try:
            ast = X.ref_parse(X.tokens(text))
        except X.IllFormed:
            cls = "illformed"
        except X.Lenient:
            cls = "lenient"
    res.tag(cls)
    res.nontrivial = ast is not None and nontrivial(ast)
    got = outcome(lambda: Regex(text), limit=5.0)
    M = drv.call("rx.parse", text=text)
    res.corr += 1
    if got[0] == "ok":
        st, tree = outcome(lambda: X.tree_of(got[1]))
        if st != "ok":
            res.violation("Regex", "parsed object has an unknown shape: %s" % tree, detail={"text": text})
            return res
        impl = {"tree": tree}
    else:
        impl = {"err": got[1] if got[0] == "exc" else "timeout"}
    agrees = impl == M
    scope = []
    if cls == "illformed":
        res.evals += 1
        if "err" in impl and impl["err"] != "MisformedRegexError":
            res.violation("Regex", "ill-formed text is refused with %s instead of MisformedRegexError" % impl["err"],
                          detail={"text": text}, model_agrees=agrees, scope=["illformed_other_exception"])
        if not agrees:
            res.corr_break("Regex", "outcome differs from the reader model", detail={"text": text, "impl": impl, "model": M})
        return res
    if cls == "lenient":
        if "err" in impl and impl["err"] not in ("MisformedRegexError",):
            res.violation("Regex", "text outside the documented grammar fails with %s" % impl["err"],
                          detail={"text": text}, model_agrees=agrees, scope=["illformed_other_exception"])
        elif not agrees:
            res.corr_break("Regex", "outcome differs from the reader model", detail={"text": text, "impl": impl, "model": M})
        return res
    # ---- well-formed text ---------------------------------------------------------------------
    res.evals += 1
    if "err" in impl:
        res.violation("Regex", "well-formed text is refused with %s" % impl["err"], detail={"text": text},
                      model_agrees=agrees)
        return res
    regex = got[1]
    eq = drv.call("rx.equiv", t1=impl["tree"], t2=ast)
    ok = True
    if not eq["equiv"]:
        res.violation("Regex", "parsed tree does not denote the language of the text",
                      detail={"text": text, "tree": impl["tree"], "intended": ast, "word": eq["word"]}, model_agrees=agrees)
        ok = False
    if not agrees and ok:
        res.corr_break("Regex", "tree differs from the reader model", detail={"text": text, "impl": impl, "model": M})
    # ---- accepts --------------------------------------------------------------------------------
    syms = sorted(set(X.symbols(ast)))[:3] or ["a"]
    words = [list(w) for n in range(0, 4 if len(syms) <= 2 else 3) for w in itertools.product(syms + ["zz"][:1], repeat=n)]
    words = words[:60]
    want = drv.call("rx.matches", tree=ast, words=words)
    for w, m in zip(words, want):
        g = outcome(lambda w=w: regex.accepts(w), limit=3.0)
        res.evals += 1
        if g != ("ok", m):
            res.violation("accepts", "accepts(w) differs from the denotation of the text",
                          detail={"text": text, "word": w, "impl": g, "spec": m})
            break
    # ---- to_epsilon_nfa: structure incl. state numbers (the counter is modelled) -----------------
    st, E = outcome(regex.to_epsilon_nfa)
    if st != "ok":
        res.violation("to_epsilon_nfa", "raised %s" % E, detail={"text": text})
    else:
        names = sorted({str(s.value) for s in E.symbols})
        ycodes = F.Codes(names)
        st2, Ex = outcome(lambda: F.extract(E, F.Codes(list(range(400))), ycodes))
        if st2 == "ok":
            cnt = min(Ex["starts"]) if Ex["starts"] else 0
            T = drv.call("rx.thompson", tree=impl["tree"], symNames=names, counter=cnt)
            res.corr += 1
            diff = F.same(Ex, T["fa"], ("starts", "finals", "delta"))
            fe = drv.call("rx.faEquiv", tree=ast, A=F.renumber(Ex), symNames=names)
            res.evals += 1
            if not fe["equiv"]:
                res.violation("to_epsilon_nfa", "automaton does not accept the language of the text",
                              detail={"text": text, "word": fe["word"]}, model_agrees=not diff)
            elif diff:
                res.corr_break("to_epsilon_nfa", "structure differs from the Thompson model: %s" % diff,
                               detail={"text": text, "impl": Ex, "model": T["fa"]})
    # ---- to_cfg ---------------------------------------------------------------------------------
    st, C = outcome(regex.to_cfg)
    if st != "ok":
        res.violation("to_cfg", "raised %s" % C, detail={"text": text})
    else:
        st, cg = outcome(lambda: G.extract(C))
        if st == "ok":
            # structural tie with the model of _get_production / get_cfg_rules
            mc = drv.call("rx.toCFG", tree=impl["tree"], start="S")
            res.corr += 1
            dcfg = G.same(cg, mc, ("start", "prods"))
            if dcfg:
                res.corr_break("to_cfg", "grammar differs from the model: %s" % dcfg,
                               detail={"text": text, "impl": cg["prods"], "model": mc["prods"]})
            mem = drv.call("cfg.member", G=cg, words=words[:40])
            for w, a, b in zip(words, mem, want):
                res.evals += 1
                if a is not None and a != b:
                    res.violation("to_cfg", "grammar does not generate the language of the text",
                                  detail={"text": text, "word": w, "cfg": a, "spec": b})
                    break
    # ---- str() round trip ---------------------------------------------------------------------------
    st, s2 = outcome(lambda: str(regex))
    if st == "ok":
        g2 = outcome(lambda: X.tree_of(Regex(s2)), limit=5.0)
        res.evals += 1
        plain = all(s not in X.ESCAPED for s in X.symbols(ast)) and "empty" not in str(impl["tree"])
        rscope = [] if plain else ["str_special_symbols"]
        Mr = drv.call("rx.repr", tree=impl["tree"])
        if Mr != s2:
            res.corr_break("str", "printed form differs from model", detail={"impl": s2, "model": Mr})
        if g2[0] != "ok":
            res.violation("str", "str(regex) does not parse back: %s" % (g2,), detail={"text": text, "str": s2},
                          scope=rscope, model_agrees=(Mr == s2))
        else:
            e2 = drv.call("rx.equiv", t1=g2[1], t2=ast)
            if not e2["equiv"]:
                res.violation("str", "str(regex) parses back to a different language",
                              detail={"text": text, "str": s2, "word": e2["word"]}, scope=rscope,
                              model_agrees=(Mr == s2))
    # ---- combinators --------------------------------------------------------------------------------
    other_ast = ["cat", ["sym", "a"], ["star", ["sym", "b"]]]
    other = Regex("a b*")
    for opname, f, want_ast in (("union", lambda: regex.union(other), ["alt", ast, other_ast]),
                                ("concatenate", lambda: regex.concatenate(other), ["cat", ast, other_ast]),
                                ("kleene_star", regex.kleene_star, ["star", ast]),
                                ("|", lambda: regex | other, ["alt", ast, other_ast]),
                                ("+", lambda: regex + other, ["cat", ast, other_ast])):
        g3 = outcome(lambda f=f: X.tree_of(f()))
        res.evals += 1
        if g3[0] != "ok":
            res.violation(opname, "raised %s" % (g3,), detail={"text": text})
            continue
        e3 = drv.call("rx.equiv", t1=g3[1], t2=want_ast)
        if not e3["equiv"]:
            res.violation(opname, "combinator does not build the corresponding language",
                          detail={"text": text, "word": e3["word"]})
    return res
