"""C09 - CFG clean-up transformations and Chomsky normal form keep the language and the shape."""
from .. import cfgdom as G
from ..core import CaseResult, outcome

ID = "C09"
RULE = ("random context-free grammars as in C08 (incl. empty-language grammars, unit cycles, nullable chains, long "
        "bodies with shared suffixes); remove_useless_symbols, remove_epsilon, eliminate_unit_productions and "
        "to_normal_form are compared structurally with the Lean model, their languages with the source language on "
        "all words of length <=4/5 by the independent membership oracle, and their shape (only useful symbols / no "
        "epsilon production / no unit production / Chomsky forms and is_normal_form()) on the implementation's "
        "result. Non-trivial: >=2 productions, one with a body of length >=2.")
THEOREMS = ["Pfl.CFG.toNormalForm_isSome",
            "Pfl.CFG.toNormalForm_fuel_indep",
            "Pfl.CFG.cleaned_isFastPath_or_empty",
            "Pfl.CFG.mk'_wf",
            "Pfl.CFG.mk'_prods",
            "Pfl.CFG.removeUseless_lang",
            "Pfl.CFG.removeUseless_useful",
            "Pfl.CFG.removeEpsilon_lang",
            "Pfl.CFG.removeEpsilon_noEps",
            "Pfl.CFG.elimUnit_lang",
            "Pfl.CFG.elimUnit_noUnit",
            "Pfl.CFG.toNormalForm_lang",
            "Pfl.CFG.toNormalForm_isNormalForm",
            "Pfl.CFG.cfgMem_iff",
            "Pfl.CFG.mem_langUpTo_iff",
            "Pfl.CFG.mem_generating_iff",
            "Pfl.CFG.mem_reachable_iff"]
OPS = [("remove_useless_symbols", "removeUseless"), ("remove_epsilon", "removeEpsilon"),
       ("eliminate_unit_productions", "elimUnit"), ("to_normal_form", "toNormalForm")]


def generate(rng, tier):
    while True:
        spec = G.gen_cfg(rng, max_vars=5, max_prods=11) if tier == "thorough" and rng.random() < 0.25 else G.gen_cfg(rng)
        if rng.random() < 0.3:
            # productions longer than two with shared suffixes
            tail = [["v", spec["prods"][0][0]], ["t", "a"], ["v", spec["prods"][0][0]]]
            for h in {p[0] for p in spec["prods"]}:
                spec["prods"].append([h, [["t", "b"]] + tail])
        yield {"g": spec}


def shape_problem(kind, r, classes):
    prods = r["prods"]
    if kind == "remove_useless_symbols":
        gen = {tuple(s) for s in classes["generating"]}
        reach = {tuple(s) for s in classes["reachable"]}
        for v in r["vars"]:
            if v != r["start"] and (("v", v) not in gen or ("v", v) not in reach):
                return "variable %s is not generating and reachable" % v
        for t in r["ters"]:
            if ("t", t) not in reach:
                return "terminal %s is not reachable" % t
        for h, b in prods:
            for s in [["v", h]] + b:
                if tuple(s) not in gen or tuple(s) not in reach:
                    return "production uses a useless symbol"
    if kind == "remove_epsilon" and any(not b for _, b in prods):
        return "an epsilon production remains"
    if kind == "eliminate_unit_productions" and any(len(b) == 1 and b[0][0] == "v" for _, b in prods):
        return "a unit production remains"
    if kind == "to_normal_form":
        for _, b in prods:
            if not ((len(b) == 2 and b[0][0] == "v" and b[1][0] == "v") or (len(b) == 1 and b[0][0] == "t")):
                return "a production is not in Chomsky normal form"
    return None


def run_case(case, drv):
    res = CaseResult()
    spec = case["g"]
    st, cfg = outcome(lambda: G.build(spec))
    if st != "ok":
        res.tag("build_fail")
        return res
    g = G.extract(cfg)
    res.nontrivial = G.is_nontrivial(spec)
    ters = sorted(set(g["ters"]))
    n = 4 if len(ters) <= 2 else 3
    src_lang = drv.call("cfg.langUpTo", G=g, n=n)
    if src_lang is None:
        res.tag("oracle_fuel")
        return res
    for pyname, kind in OPS:
        st, R = outcome(getattr(cfg, pyname), limit=8.0)
        if st != "ok":
            res.violation(pyname, "raised / hung: %s" % (R if st == "exc" else st), detail={"outcome": [st, R]})
            continue
        st, r = outcome(lambda R=R: G.extract(R))
        if st != "ok":
            res.violation(pyname, "result has non-string symbols")
            continue
        M = drv.call("cfg.transform", G=g, kind=kind)
        res.corr += 1
        if pyname == "to_normal_form" and M is not None:
            # names the fresh binarisation variables had to avoid: the variables of the cleaned grammar
            base = drv.call("cfg.transform", G=g, kind="cnfBase")
            keep = base["vars"] if base is not None else g["vars"]
            diff = G.same(G.canon_cnf_names(r, keep), G.canon_cnf_names(M, keep), ("start", "prods"))
        else:
            diff = G.same(r, M, ("start", "prods")) if M is not None else ["model-fuel"]
        agrees = not diff
        ok = True
        # language (the empty word excepted where the documentation says so)
        want = [w for w in src_lang if w or pyname in ("remove_useless_symbols", "eliminate_unit_productions")]
        rl = drv.call("cfg.langUpTo", G={**r, "ters": sorted(set(r["ters"]) | set(ters))}, n=n)
        res.evals += 1
        if rl is not None and sorted(rl) != sorted(want):
            missing = [w for w in want if w not in rl]
            extra = [w for w in rl if w not in want]
            res.violation(pyname, "language changed", detail={"missing": missing[:3], "extra": extra[:3]},
                          model_agrees=agrees)
            ok = False
        classes = drv.call("cfg.classes", G=r)
        prob = shape_problem(pyname, r, classes)
        res.evals += 1
        if prob:
            res.violation(pyname, "shape: " + prob, model_agrees=agrees, detail={"result": r})
            ok = False
        if pyname == "to_normal_form":
            got = outcome(R.is_normal_form)
            if got != ("ok", True):
                res.violation(pyname, "is_normal_form() is not True on the result", model_agrees=agrees)
                ok = False
        if diff and ok:
            res.corr_break(pyname, "structure differs from model: %s" % diff, detail={"impl": r, "model": M})
    # is_normal_form on the source
    got = outcome(cfg.is_normal_form)
    cl = drv.call("cfg.classes", G=g)
    res.corr += 1
    if got != ("ok", cl["isNormalForm"]):
        res.violation("is_normal_form", "differs from the definition of Chomsky normal form", detail={"impl": got})
    return res
