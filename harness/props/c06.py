"""C06 - automaton to regular expression (state elimination) preserves the language."""
from .. import fa as F
from .. import rxdom as X
from ..core import CaseResult, outcome

ID = "C06"
RULE = ("random epsilon-NFA/NFA/DFA specs (0-4 states, 1-3 plain symbols, any number of start and final states incl. "
        "none, start = final, self loops, epsilon transitions, string state names so that the elimination order varies "
        "with the hash seed); to_regex() must not raise, its parsed tree and to_regex().to_epsilon_nfa() must accept "
        "exactly the automaton's language (verified equivalence oracle), and accepts() must agree on all words of "
        "length <=3; the parsed tree is also compared, modulo associativity of concatenation and ACI of union, "
        "with the tree-level Lean model of the elimination fed with the recorded elimination order. Non-trivial: >=2 states, >=2 transitions, a start and a final state.")
LEVEL = "proof"
THEOREMS = ["Pfl.ENFA.toRegex_roundtrip_lang",
            "Pfl.ENFA.toRegexRx_lang",
            "Pfl.Rx.thompson_lang",
            "Pfl.ENFA.langDiff_none_iff",
            "Pfl.ENFA.langDiff_some",
            "Pfl.ENFA.member_iff"]


_LOG = None


def _install_recorders():
    """record, without touching /repo, the order in which to_regex eliminates states"""
    from pyformlang.finite_automaton import EpsilonNFA
    if getattr(EpsilonNFA, "_verif_wrapped", False):
        return
    rm, simple = EpsilonNFA._remove_state, EpsilonNFA._get_regex_simple  # pylint: disable=protected-access

    def rm_w(self, state):
        if _LOG is not None:
            _LOG.append(("rm", state))
        return rm(self, state)

    def simple_w(self):
        if _LOG is not None:
            _LOG.append(("simple", list(self._final_states)))  # pylint: disable=protected-access
        return simple(self)
    EpsilonNFA._remove_state = rm_w  # pylint: disable=protected-access
    EpsilonNFA._get_regex_simple = simple_w  # pylint: disable=protected-access
    EpsilonNFA._verif_wrapped = True


def norm(t):
    """normal form modulo associativity of cat and associativity/commutativity/idempotence of alt"""
    import json
    if t[0] == "cat":
        parts = []
        for x in (norm(t[1]), norm(t[2])):
            parts += x[1] if x[0] == "cat" else [x]
        return ["cat", parts]
    if t[0] == "alt":
        parts = []
        for x in (norm(t[1]), norm(t[2])):
            parts += x[1] if x[0] == "alt" else [x]
        uniq = {json.dumps(x): x for x in parts}
        if len(uniq) == 1:
            return list(uniq.values())[0]
        return ["alt", [uniq[k] for k in sorted(uniq)]]
    if t[0] == "star":
        return ["star", norm(t[1])]
    return t


def generate(rng, tier):
    while True:
        spec = F.gen_fa(rng, max_states=(5 if tier == "thorough" and rng.random() < 0.25 else 4), pool=rng.choice(["str", "str", "int"]))
        spec["symvals"] = F.PLAIN_SYMS[:len(spec["symvals"])]
        edit = []
        n = len(spec["svals"])
        if n and rng.random() < 0.3:
            # the same object converted again after an edit through the public API (start / final marks, a transition)
            for _ in range(rng.randint(1, 2)):
                k = rng.choice(["start", "start", "unstart", "final", "unfinal", "trans"])
                if k == "trans":
                    edit.append([k, rng.randrange(n), rng.randrange(len(spec["symvals"])), rng.randrange(n)])
                else:
                    edit.append([k, rng.randrange(n)])
        yield {"fa": spec, "edit": edit}



def exhaustive(tier):
    """every automaton with 1 or 2 states over one symbol (with epsilon moves), and over two symbols without"""
    if tier != "thorough":
        return
    for n in (1, 2):
        for spec in F.enumerate_fa(n, 1, "E"):
            yield {"fa": spec}
    for spec in F.enumerate_fa(2, 2, "N"):
        yield {"fa": spec}


def run_case(case, drv):
    res = CaseResult()
    spec = case["fa"]
    st, fa = outcome(lambda: F.build(spec))
    if st != "ok":
        return res
    scodes, ycodes = F.Codes(spec["svals"]), F.Codes(spec["symvals"])
    A = F.extract(fa, scodes, ycodes)
    names = [str(v) for v in ycodes.values]
    res.nontrivial = F.is_nontrivial(spec)
    if len(A["delta"]) > 9:
        res.tag("skipped_dense")
        return res
    global _LOG  # pylint: disable=global-statement
    _install_recorders()
    _LOG = []
    got = outcome(fa.to_regex, limit=8.0)
    log, _LOG = _LOG, None
    res.evals += 1
    if got[0] == "timeout":
        res.tag("timeout")
        return res
    if got[0] != "ok":
        res.violation("to_regex", "raised %s" % got[1], detail={"exc": got[1]},
                      scope=(["multi_start"] if len(A["starts"]) > 1 else []))
        return res
    regex = got[1]
    st, tree = outcome(lambda: X.tree_of(regex))
    if st != "ok":
        res.violation("to_regex", "result is not a regex tree: %s" % tree)
        return res
    eq = drv.call("rx.faEquiv", tree=tree, A=A, symNames=names)
    if not eq["equiv"]:
        res.violation("to_regex", "regular expression does not denote the automaton's language",
                      detail={"word": eq["word"], "regex": str(regex)})
        return res
    # structural tie with the tree-level model of the elimination (Pfl/Model/ToRegex.lean)
    orders, cur, ok_log = [], [], True
    for kind, val in log:
        if kind == "rm":
            cur.append(scodes.code(val.value) if val.value in scodes.values else None)
        else:
            if len(val) == 1:
                orders.append([scodes.code(val[0].value), cur])
            cur = []
    if ok_log:
        mt = drv.call("rx.toRegex", A=A, symNames=names, orders=orders)
        res.corr += 1
        if norm(mt) != norm(tree):
            res.corr_break("to_regex", "tree differs from the elimination model (modulo associativity of cat, ACI of alt)",
                           detail={"impl": tree, "model": mt, "regex": str(regex), "orders": orders})
        res.tag("elim_states_%d" % min(3, max([len(o[1]) for o in orders] + [0])))
    # round trip through to_epsilon_nfa
    st, E = outcome(regex.to_epsilon_nfa)
    res.evals += 1
    if st != "ok":
        res.violation("to_regex.to_epsilon_nfa", "raised %s" % E)
    else:
        Ex = F.extract(E, F.Codes([]), ycodes)
        d = drv.call("fa.diff", A=A, B=F.renumber(Ex))
        if not d["equiv"]:
            res.violation("to_regex.to_epsilon_nfa", "round trip changes the language", detail={"word": d["word"]})
    words = F.words_upto(list(range(len(names))), 3)[:40]
    mem = drv.call("fa.member", A=A, words=words)
    for w, m in zip(words, mem):
        g = outcome(lambda w=w: regex.accepts([names[a] for a in w]), limit=3.0)
        res.evals += 1
        if g != ("ok", m):
            res.violation("to_regex.accepts", "accepts differs from the automaton", detail={"word": w, "impl": g})
            break
    # ---- the same object, edited through the public API, converted again --------------------------
    if case.get("edit") and not res.findings:
        sv, yv = spec["svals"], spec["symvals"]

        def apply_edit():
            for e in case["edit"]:
                try:
                    if e[0] == "start":
                        fa.add_start_state(sv[e[1]])
                    elif e[0] == "unstart":
                        fa.remove_start_state(sv[e[1]])
                    elif e[0] == "final":
                        fa.add_final_state(sv[e[1]])
                    elif e[0] == "unfinal":
                        fa.remove_final_state(sv[e[1]])
                    else:
                        fa.add_transition(sv[e[1]], yv[e[2]], sv[e[3]])
                except Exception:  # pylint: disable=broad-except
                    pass           # e.g. a second transition on a DFA entry: refused, nothing changes
        outcome(apply_edit)
        A2 = F.extract(fa, scodes, ycodes)
        if len(A2["delta"]) <= 9:
            got2 = outcome(fa.to_regex, limit=8.0)
            res.evals += 1
            if got2[0] == "ok":
                st, tree2 = outcome(lambda: X.tree_of(got2[1]))
                if st == "ok":
                    eq2 = drv.call("rx.faEquiv", tree=tree2, A=A2, symNames=[str(v) for v in ycodes.values])
                    res.tag("converted_again_after_edit")
                    if not eq2["equiv"]:
                        res.violation("to_regex", "after an edit of the automaton, to_regex() does not denote the "
                                      "language of the edited automaton", detail={"word": eq2["word"], "edit": case["edit"],
                                                                                 "regex": str(got2[1])})
            elif got2[0] == "exc":
                res.violation("to_regex", "raised %s after an edit" % got2[1], detail={"edit": case["edit"]},
                              scope=(["multi_start"] if len(A2["starts"]) > 1 else []))
    return res
