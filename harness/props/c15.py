"""C15 - every parse tree or derivation handed out is a real derivation of the given word."""
from pyformlang.cfg import Variable, Terminal
from pyformlang.cfg.llone_parser import LLOneParser
from pyformlang.cfg.recursive_decent_parser import RecursiveDecentParser
from .. import cfgdom as G
from ..core import CaseResult, outcome
from .c14 import tree_json

ID = "C15"
RULE = ("random context-free grammars (ambiguous ones, epsilon productions and epsilon subtrees included) x all words "
        "of length <=3/4 (members and non-members); every tree returned by get_cnf_parse_tree (against the "
        "implementation's own normal form), LLOneParser.get_llone_parse_tree (LL(1) grammars) and "
        "RecursiveDecentParser.get_parse_tree (grammars without epsilon productions and unit cycles; left and right "
        "expansion) is validated by the exact tree checker, its get_leftmost_derivation / get_rightmost_derivation "
        "listings by the derivation checker, and refusals are compared with the membership oracle. FCFG.get_parse_tree: "
        "random feature grammars (as in C18) x all words of length <=3/4, every tree validated against the skeleton "
        "grammar by the same checkers, membership / refusal against the instantiated grammar. Non-trivial: >=2 productions, one with a body of length >=2.")
LEVEL = "proof"
THEOREMS = ["Pfl.LL1Lib.parse_total",
            "Pfl.RecDescent.rdMatch_of_derives",
            "Pfl.RecDescent.parse_valid",
            "Pfl.RecDescent.parse_refuses_only_nonmembers",
            "Pfl.RecDescent.parse_no_start",
            "Pfl.LL1Lib.parse_valid",
            "Pfl.CFG.treeValid_sound",
            "Pfl.CFG.treeValid_complete",
            "Pfl.CFG.wellFormedT_gen",
            "Pfl.CFG.leftStep_derives",
            "Pfl.CFG.rightStep_derives",
            "Pfl.CFG.derivationValid_sound",
            "Pfl.CFG.leftmostD_valid",
            "Pfl.CFG.rightmostD_valid",
            "Pfl.CFG.cfgMem_iff",
            "Pfl.CFG.toNormalForm_lang",
            "Pfl.CFG.llParse_valid",
            "Pfl.CFG.cykTree_valid",
            "Pfl.CFG.cykTree_isSome_iff",
            "Pfl.CFG.cnfParseTree_valid",
            "Pfl.Earley.parseTree_valid",
            "Pfl.Earley.parseTree_isSome",
            "Pfl.Earley.parseTreeSpec_valid",
            "Pfl.Earley.parseTreeSpec_isSome"]


def generate(rng, tier):
    from . import c18
    while True:
        g = G.gen_cfg(rng, max_vars=3, max_prods=6, adversarial=False)
        if rng.random() < 0.03:
            g["start"] = None             # a grammar without start symbol: every parser refuses every word
        yield {"g": g, "fg": c18.gen_fcfg(rng)}


def sym_json(x):
    if isinstance(x, Variable):
        return ["v", x.value]
    if isinstance(x, Terminal):
        return ["t", x.value]
    raise TypeError(repr(x))


def check_tree(res, drv, op, g, tree, w):
    """tree validity + both derivation listings"""
    st, tj = outcome(lambda: tree_json(tree))
    res.evals += 1
    if st != "ok":
        res.violation(op, "tree contains a node that is neither variable nor terminal")
        return False
    if not drv.call("cfg.treeValid", G=g, tree=tj, word=w):
        res.violation(op, "returned tree is not a parse tree of the word in the grammar",
                      detail={"word": w, "tree": tj})
        return False
    for left, meth in ((True, "get_leftmost_derivation"), (False, "get_rightmost_derivation")):
        st, lines = outcome(lambda: [[sym_json(x) for x in line] for line in getattr(tree, meth)()])
        res.evals += 1
        if st != "ok":
            res.violation(meth, "raised %s" % lines, detail={"word": w, "tree": tj},
                          scope=(["eps_subtree"] if has_eps_subtree(tj) else []))
            continue
        if not drv.call("cfg.derivValid", G=g, left=left, root=[tj[0], tj[1]], lines=lines, word=w):
            res.violation(meth, "listing is not a %s derivation of the word" % ("leftmost" if left else "rightmost"),
                          detail={"word": w, "tree": tj, "lines": lines},
                          scope=(["eps_subtree"] if has_eps_subtree(tj) else []))
    return True


def has_eps_subtree(tj):
    return (tj[0] == "v" and not tj[2]) or any(has_eps_subtree(s) for s in tj[2])


def run_case(case, drv):
    res = CaseResult()
    st, cfg = outcome(lambda: G.build(case["g"]))
    if st != "ok":
        return res
    g = G.extract(cfg)
    res.nontrivial = G.is_nontrivial(case["g"])
    ters = sorted(set(g["ters"]))
    words = G.words_upto(ters, 3 if len(ters) > 2 else 4)
    mem = drv.call("cfg.member", G=g, words=words)
    # ---- CNF tree -------------------------------------------------------------------------------
    st, N = outcome(cfg.to_normal_form, limit=8.0)
    if st == "ok":
        n = G.extract(N)
        for w, m in zip(words, mem):
            if not w or m is None:
                continue
            got = outcome(lambda w=w: cfg.get_cnf_parse_tree(w), limit=3.0)
            res.evals += 1
            if m:
                if got[0] != "ok":
                    res.violation("get_cnf_parse_tree", "member is refused: %s" % (got,), detail={"word": w})
                    break
                if not check_tree(res, drv, "get_cnf_parse_tree", n, got[1], w):
                    break
            elif got != ("exc", "DerivationDoesNotExist"):
                res.violation("get_cnf_parse_tree", "non-member is not refused with DerivationDoesNotExist",
                              detail={"word": w, "impl": got if got[0] != "ok" else "tree"})
                break
    # ---- LL(1) trees (incl. epsilon subtrees) ----------------------------------------------------
    ref = drv.call("cfg.ll1", G=g)
    cl = drv.call("cfg.classes", G=g)
    useful = {tuple(s) for s in cl["generating"]} & {tuple(s) for s in cl["reachable"]}
    if ref["isLL1"] and all(("v", v) in useful for v in g["vars"]):
        parser = LLOneParser(cfg)
        res.tag("ll1")
        for w, m in zip(words, mem):
            if not m:
                continue
            got = outcome(lambda w=w: parser.get_llone_parse_tree(w), limit=3.0)
            if got[0] == "ok":
                if not check_tree(res, drv, "get_llone_parse_tree", g, got[1], w):
                    break
    # ---- recursive descent (documented class: no epsilon productions, no unit cycles) -----------
    no_eps = all(b for _, b in g["prods"])
    unit_cycle = any(a != b and (b, a) in {tuple(p) for p in cl["unitPairs"]} for a, b in cl["unitPairs"]) or \
        any(len(b) == 1 and b[0] == ["v", h] for h, b in g["prods"])
    # step-faithful tie of the backtracking search (any grammar; the model's fuel-out stands for RecursionError)
    rd0 = RecursiveDecentParser(cfg)
    tie_words = [w for w in words if len(w) <= 2][:5]
    for left in (True, False):
        mt = drv.call("cfg.recDescent", G=g, words=tie_words, left=left, fuel=14)
        for w, m_ in zip(tie_words, mt):
            if m_ == "fuel":
                res.tag("rd_tie_fuel")
                continue
            got = outcome(lambda w=w, left=left: tree_json(rd0.get_parse_tree(w, left)), limit=2.0, retry=False)
            if got[0] == "timeout":
                res.tag("rd_tie_timeout")
                continue
            res.corr += 1
            want_ = ("exc", "NotParsableException") if m_ is None else ("ok", m_)
            if got != want_:
                res.corr_break("rd.get_parse_tree", "result differs from the faithful search model",
                               detail={"word": w, "left": left, "impl": str(got), "model": m_})
                break
            res.tag("rd_tie")
    if no_eps and not unit_cycle:
        res.tag("rd_class")
        rd = RecursiveDecentParser(cfg)
        rdw = [(w, m) for w, m in zip(words, mem) if len(w) <= 3][:14]
        for w, m in rdw:
            if m is None:
                continue
            for left in (True, False):
                got = outcome(lambda w=w, left=left: rd.get_parse_tree(w, left), limit=0.5, retry=False)
                res.evals += 1
                if got[0] == "timeout" or got == ("exc", "RecursionError"):
                    res.tag("rd_timeout")
                    break
                if m:
                    if got[0] != "ok":
                        res.violation("rd.get_parse_tree", "member is refused: %s" % (got,), detail={"word": w, "left": left})
                        break
                    if not check_tree(res, drv, "rd.get_parse_tree", g, got[1], w):
                        break
                elif got != ("exc", "NotParsableException"):
                    res.violation("rd.get_parse_tree", "non-member is not refused with NotParsableException",
                                  detail={"word": w, "impl": got if got[0] != "ok" else "tree"})
                    break
    # ---- FCFG trees (Earley parser of feature grammars): every tree against the skeleton grammar, membership
    # against the instantiated grammar ------------------------------------------------------------------------
    if case.get("fg") is not None:
        fcfg_trees(case["fg"], drv, res)
    return res


def fcfg_trees(gs, drv, res):
    from . import c18
    st, fg = outcome(lambda: c18.build_fcfg(gs))
    if st != "ok":
        res.tag("fcfg_build_fail")
        return
    plain = c18.instantiate(gs)
    ters = sorted(gs["ters"])
    words = G.words_upto(ters, 3 if len(ters) > 2 else 4)[:40]
    mem = drv.call("cfg.member", G=plain, words=words)
    base = {"vars": [], "ters": ters, "start": "S",
            "prods": [[h[0], [[i[0], i[1]] for i in body]] for h, body in gs["prods"]]}
    for w, m in zip(words, mem):
        if m is None:
            continue
        got = outcome(lambda w=w: fg.get_parse_tree(w), limit=3.0)
        res.evals += 1
        if m:
            if got[0] != "ok":
                res.violation("FCFG.get_parse_tree", "member is refused: %s" % (got,), detail={"word": w, "grammar": gs})
                break
            if not check_tree(res, drv, "FCFG.get_parse_tree", base, got[1], w):
                break
        elif got != ("exc", "NotParsableException"):
            res.violation("FCFG.get_parse_tree", "non-member is not refused with NotParsableException",
                          detail={"word": w, "impl": got if got[0] != "ok" else "tree", "grammar": gs})
            break
    res.tag("fcfg_trees")
