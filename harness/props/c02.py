"""C02 - is_equivalent_to / == decide language equality exactly; minimize is reduced and canonical."""
import copy
from pyformlang.finite_automaton import DeterministicFiniteAutomaton
from .. import fa as F
from ..core import CaseResult, outcome

ID = "C02"
RULE = ("ordered pairs of automata: a random epsilon-NFA/NFA/DFA (0-4 states, 1-3 symbols, clean or adversarial "
        "names) paired with (a) a language-preserving variant (explicit sink added, unreachable or duplicated "
        "states, renaming, determinised), (b) a one-edit mutant, (c) an independent random automaton (possibly "
        "over another alphabet); is_equivalent_to and == in both directions are decided against the verified "
        "language-equivalence oracle; minimize() of both is checked for language, determinism, reducedness "
        "(verified Nerode oracle) and isomorphism when the languages are equal; the partition computed by "
        "_get_partition is compared, class order and member order included, with the step-faithful Hopcroft model "
        "(proved to yield the Nerode partition) and with the Nerode oracle. Non-trivial: first automaton has >=2 states, >=2 transitions, a "
        "start and a final state.")
THEOREMS = ["Pfl.ENFA.isoWalk_total",
            "Pfl.ENFA.nerodeGroups_total",
            "Pfl.ENFA.isReduced_total",
            "Pfl.ENFA.langDiff_isSome",
            "Pfl.ENFA.isEquivalent_hopcroft_exact",
            "Pfl.ENFA.minimize_enfa",
            "Pfl.ENFA.sameRight_iff",
            "Pfl.ENFA.nerodeGroups_spec",
            "Pfl.ENFA.minimizeOf_lang",
            "Pfl.ENFA.minimizeOf_shape",
            "Pfl.ENFA.minimizeOf_reduced",
            "Pfl.ENFA.isReduced_iff",
            "Pfl.ENFA.isoWalk_true",
            "Pfl.ENFA.isoWalk_false",
            "Pfl.ENFA.minimizeOf_trim",
            "Pfl.ENFA.isEquivalent_exact",
            "Pfl.ENFA.checkIso_iff",
            "Pfl.ENFA.isIso_lang",
            "Pfl.ENFA.langDiff_none_iff",
            "Pfl.ENFA.langDiff_some",
            "Pfl.ENFA.toDet_lang",
            "Pfl.ENFA.toDet_shape",
            "Pfl.ENFA.hopcroft_isNerodePartition",
            "Pfl.ENFA.hopcroft_groups_nodup",
            "Pfl.ENFA.hopcroft_isSome",
            "Pfl.ENFA.minimize_hopcroft_lang",
            "Pfl.ENFA.minimize_hopcroft_reduced"]


def variant(rng, spec):
    """a spec with the same language as `spec` (by construction)"""
    v = copy.deepcopy(spec)
    n = len(v["svals"])
    kind = rng.choice(["sink", "unreach", "dup", "rename", "same", "sink"])
    k = len(v["symvals"])

    def fresh_val():
        i = 0
        while ("z%d" % i) in v["svals"]:
            i += 1
        return "z%d" % i
    if kind == "sink" and n > 0:
        v["svals"].append(fresh_val())
        s = n
        present = {(t[0], t[1]) for t in v["delta"]}
        for q in range(n):
            for a in range(k):
                if (q, a) not in present and (v["cls"] != "D" or True) and rng.random() < 0.8:
                    v["delta"].append([q, a, s])
        for a in range(k):
            v["delta"].append([s, a, s])
    elif kind == "unreach" and n > 0:
        v["svals"].append(fresh_val())
        s = n
        for a in range(k):
            if rng.random() < 0.6:
                v["delta"].append([s, a, rng.randrange(n + 1)])
        if rng.random() < 0.5:
            v["finals"] = v["finals"] + [s]
    elif kind == "dup" and n > 0 and v["cls"] != "D":
        # duplicate state q: copy its out-edges and in-edges, start/final status
        q = rng.randrange(n)
        v["svals"].append(fresh_val())
        s = n
        for t in list(v["delta"]):
            if t[0] == q:
                v["delta"].append([s, t[1], t[2] if t[2] != q else s])
            if t[2] == q and t[0] != q:
                v["delta"].append([t[0], t[1], s])
            if t[0] == q and t[2] == q:
                v["delta"].append([q, t[1], s])
                v["delta"].append([s, t[1], q])
        if q in v["finals"]:
            v["finals"] = v["finals"] + [s]
        if q in v["starts"]:
            v["starts"] = v["starts"] + [s]
    elif kind == "rename":
        v["svals"] = ["r%d" % i for i in range(n)]
    return v


def mutant(rng, spec):
    v = copy.deepcopy(spec)
    n = len(v["svals"])
    if n == 0:
        return v
    if rng.random() < 0.5 or not v["delta"]:
        q = rng.randrange(n)
        if q in v["finals"]:
            v["finals"] = [x for x in v["finals"] if x != q]
        else:
            v["finals"] = v["finals"] + [q]
    else:
        i = rng.randrange(len(v["delta"]))
        if v["cls"] == "D" or rng.random() < 0.5:
            del v["delta"][i]
        else:
            t = v["delta"][i]
            v["delta"].append([t[0], t[1], rng.randrange(n)])
    return v


def generate(rng, tier):
    while True:
        pool = rng.choice(["int", "str", "str", "str", "adv"])
        a = F.gen_fa(rng, max_states=(5 if tier == "thorough" and rng.random() < 0.25 else 4), pool=pool)
        r = rng.random()
        if r < 0.5:
            b = variant(rng, a)
            if rng.random() < 0.3:
                b["cls"] = "E" if b["cls"] != "D" else "D"
        elif r < 0.75:
            b = mutant(rng, a)
        else:
            b = F.gen_fa(rng, max_states=4, pool=rng.choice(["int", "str"]))
        yield {"a": a, "b": b}



def exhaustive(tier):
    """all ordered pairs of one-state automata over one symbol, and of two-state DFAs over one symbol"""
    if tier != "thorough":
        return
    ones = list(F.enumerate_fa(1, 1, "E"))
    for a in ones:
        for b in ones:
            yield {"a": a, "b": b}
    dfas = list(F.enumerate_fa(2, 1, "D"))
    for a in dfas:
        for b in dfas:
            yield {"a": a, "b": b}


def run_case(case, drv):
    res = CaseResult()
    sa, sb = case["a"], case["b"]
    st, fa = outcome(lambda: F.build(sa))
    st2, fb = outcome(lambda: F.build(sb))
    if st != "ok" or st2 != "ok":
        res.tag("build_fail")
        return res
    ycodes = F.Codes(list(sa["symvals"]))
    ca, cb = F.Codes(sa["svals"]), F.Codes(sb["svals"])
    A, B = F.extract(fa, ca, ycodes), F.extract(fb, cb, ycodes)
    na, nb = [str(v) for v in ca.values], [str(v) for v in cb.values]
    clean = F.names_clean(sa["svals"]) and F.names_clean(sb["svals"])
    scope = [] if clean else ["unclean_names"]
    res.nontrivial = F.is_nontrivial(sa)
    res.tag("cls_%s%s" % (sa["cls"], sb["cls"]))
    truth = drv.call("fa.diff", A=A, B=B)
    res.tag("equal_%s" % truth["equiv"])

    # ---- is_equivalent_to / == in both directions ----------------------------------------
    model = drv.call("fa.isEquivalent", A=A, B=B, clsA=sa["cls"], clsB=sb["cls"], namesA=na, namesB=nb)
    model_r = drv.call("fa.isEquivalent", A=B, B=A, clsA=sb["cls"], clsB=sa["cls"], namesA=nb, namesB=na)
    for opname, f, mod in (("is_equivalent_to", lambda: fa.is_equivalent_to(fb), model),
                           ("==", lambda: fa == fb, model),
                           ("is_equivalent_to.rev", lambda: fb.is_equivalent_to(fa), model_r)):
        got = outcome(f)
        res.evals += 1
        res.corr += 1
        agrees = got == ("ok", mod)
        if got != ("ok", truth["equiv"]):
            res.violation(opname, "verdict differs from language equality",
                          detail={"impl": got, "languages_equal": truth["equiv"], "word": truth["word"]},
                          scope=scope, model_agrees=agrees)
        elif not agrees and mod is not None:
            res.corr_break(opname, "verdict differs from model", detail={"impl": got, "model": mod})

    # ---- minimize ---------------------------------------------------------------------------
    mins = []
    for label, obj, X, spec, codes, names in (("a", fa, A, sa, ca, na), ("b", fb, B, sb, cb, nb)):
        st, M = outcome(obj.minimize)
        if st != "ok":
            res.violation("minimize", "raised %s" % M, scope=scope)
            mins.append(None)
            continue
        Mx = F.extract_named(M, ycodes)
        Mn = F.renumber(Mx)
        mins.append(Mn)
        res.evals += 3
        d = drv.call("fa.diff", A=X, B=Mn)
        ok = True
        # structural model only for DFA-class sources (others go through to_deterministic first)
        agrees = False
        Mm = None
        if spec["cls"] == "D":
            Mm = drv.call("fa.minimize", A=X, names=names)
            res.corr += 1
            agrees = not F.same(Mx, Mm)
        if not d["equiv"]:
            res.violation("minimize", "language changed", detail={"word": d["word"]}, scope=scope,
                          model_agrees=agrees)
            ok = False
        if not (isinstance(M, DeterministicFiniteAutomaton) and F.structurally_deterministic(Mx)):
            res.violation("minimize", "result is not deterministic", scope=scope, model_agrees=agrees)
            ok = False
        red = drv.call("fa.isReduced", A=Mn)
        if red is not True:
            res.violation("minimize", "result is not reduced (unreachable or indistinguishable states)",
                          detail={"result": Mx}, scope=scope, model_agrees=agrees)
            ok = False
        if Mm is not None and not agrees and ok:
            res.corr_break("minimize", "structure differs from model", detail={"impl": Mx, "model": Mm})
        # trace-level tie: Hopcroft partition == Nerode partition
        gp = getattr(obj, "_get_partition", None)
        if spec["cls"] == "D" and gp is not None and obj.start_states and obj.final_states:
            st, part = outcome(lambda: gp().get_groups())
            if st == "ok":
                res.corr += 1
                impl_groups = sorted(sorted((-1 if s is None else codes.code(s)) for s in g) for g in part if g)
                ner = drv.call("fa.nerode", A=X)
                ner_groups = sorted(sorted((-1 if s is None else s) for s in g) for g in ner if g)
                if impl_groups != ner_groups:
                    res.corr_break("_get_partition", "Hopcroft partition differs from the Nerode partition",
                                   detail={"impl": impl_groups, "nerode": ner_groups})
                # step-faithful tie: the refinement loop itself (class order, member order, splitter stack)
                order = [codes.code(s) for s in obj._states]
                symorder = [ycodes.code(y) for y in obj._input_symbols]
                hop = drv.call("fa.hopcroft", A=X, order=order, symorder=symorder)
                res.corr += 1
                impl_exact = [[(None if s is None else codes.code(s)) for s in g] for g in part]
                if impl_exact != hop:
                    res.corr_break("_get_partition", "partition (class and member order) differs from the "
                                   "faithful Hopcroft model", detail={"impl": impl_exact, "model": hop})
                res.tag("hopcroft_classes_%d" % min(len(hop), 5))
    # ---- an automaton returned by minimize() and then edited in place is an automaton like any other -------
    st_m, Mobj = outcome(fa.minimize)
    if st_m == "ok" and len(Mobj.states) >= 1:
        import random as _r
        erng = _r.Random(len(sa["delta"]) * 31 + len(sa["finals"]))
        edges = list(Mobj._transition_function.get_edges())   # pylint: disable=protected-access
        edited = False
        if edges and erng.random() < 0.6:
            q_, a_, r_ = edges[erng.randrange(len(edges))]
            Mobj.remove_transition(q_, a_, r_)
            edited = True
        elif Mobj.final_states:
            Mobj.remove_final_state(sorted(Mobj.final_states, key=lambda z: str(z.value))[0])
            edited = True
        if edited:
            Ex = F.renumber(F.extract_named(Mobj, ycodes))
            d_e = drv.call("fa.diff", A=Ex, B=B)
            # minimize() names its states with ';'-joins: a second minimisation of the edited object falls in the
            # scope of the naming defect KF-C02-1; it is attributed to it exactly when the same structure under
            # clean names (a fresh copy with integer states) gets every verdict right
            scope_m = list(scope)
            if any(";" in str(q.value) or str(q.value) in ("", "TRASH") for q in Mobj.states) and "unclean_names" not in scope_m:
                scope_m.append("unclean_names")
            st_c, Cobj = outcome(lambda: F.build_from_extract(Ex, list(ycodes.values)))
            clean_ok = None

            def clean_verdicts_right():
                if st_c != "ok":
                    return False
                c2 = F.build_from_extract(Ex, list(ycodes.values))
                return (outcome(lambda: Cobj.is_equivalent_to(fb)) == ("ok", d_e["equiv"])
                        and outcome(lambda: fb.is_equivalent_to(Cobj)) == ("ok", d_e["equiv"])
                        and outcome(lambda: Cobj.is_equivalent_to(c2)) == ("ok", True))
            checks = [("is_equivalent_to", lambda: Mobj.is_equivalent_to(fb), d_e["equiv"], "edited minimal automaton vs second operand"),
                      ("is_equivalent_to.rev", lambda: fb.is_equivalent_to(Mobj), d_e["equiv"], "second operand vs edited minimal automaton")]
            if st_c == "ok":
                checks.append(("is_equivalent_to", lambda: Mobj.is_equivalent_to(Cobj), True,
                               "edited minimal automaton vs a fresh copy of itself"))
            for opname, f, want_, what_ in checks:
                got = outcome(f)
                res.evals += 1
                if got != ("ok", want_):
                    if clean_ok is None:
                        clean_ok = clean_verdicts_right()
                    res.violation(opname, "verdict differs from language equality (%s)" % what_,
                                  detail={"impl": got, "languages_equal": want_, "word": d_e["word"],
                                          "same_structure_under_clean_names_is_right": clean_ok},
                                  scope=(scope_m if clean_ok else scope), model_agrees=bool(clean_ok))
            if st_c == "ok" and clean_ok is None:
                # the clean copy itself must always be judged correctly
                got = outcome(lambda: Cobj.is_equivalent_to(fb))
                res.evals += 1
                if got != ("ok", d_e["equiv"]):
                    res.violation("is_equivalent_to", "verdict differs from language equality (fresh copy of the edited automaton)",
                                  detail={"impl": got, "languages_equal": d_e["equiv"]}, scope=[])
            res.tag("edited_minimal")
    if truth["equiv"] and mins[0] is not None and mins[1] is not None:
        res.evals += 1
        if not drv.call("fa.iso", A=mins[0], B=mins[1]):
            res.violation("minimize", "equivalent automata minimise to non-isomorphic results",
                          detail={"min_a": mins[0], "min_b": mins[1]}, scope=scope)
    return res
