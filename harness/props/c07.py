"""C07 - PythonRegex agrees with Python's re.fullmatch on the documented subset."""
import itertools
import re
from pyformlang.regular_expression import PythonRegex
from ..core import CaseResult, outcome

ID = "C07"
LEVEL = "other"
RULE = ("random patterns generated from the documented subset (literals, escaped metacharacters, '.', sets and negated "
        "sets with ranges (incl. ranges between arbitrary printable characters, metacharacters as endpoints), alternation, nested groups, * + ? {m} {m,n} incl. m=0 and m=n, quantifier on group/set/escape, "
        "\\d \\s \\w) x all strings of length <=3 over a 7-character printable alphabet plus random longer ones and probe characters derived from the pattern (range endpoints, their neighbours, midpoints); "
        "PythonRegex(p).accepts(s) is compared with re.fullmatch(p, s); patterns rejected by re.compile must be "
        "rejected. Non-trivial: pattern with >=2 operators.")
EXPLANATION = "PythonRegex is a chain of textual rewrites whose specification is CPython's own re engine, which cannot be stated in Lean; every generated (pattern, string) instance is decided exactly by re.fullmatch / re.compile as the property itself prescribes. No Lean theorem is claimed for this property in this round (see DESIGN.md 6 C07)."
THEOREMS = []
ALPHA = ["a", "b", "c", "1", " ", "-", "+"]
LITS = ["a", "b", "c", "1", "-", "\\+", "\\*", "\\.", "\\(", "\\)", "\\?", "\\|", "\\[", "\\]", " "]


RANGE_ENDS = [chr(c) for c in range(0x21, 0x7f) if chr(c) not in "\\^-"]


def set_escape(ch):
    return "\\" + ch if ch in "[]" else ch


def probe_chars(p):
    """characters worth trying against `p`: its own characters, and for every range inside a set the two
    endpoints, their neighbours and a midpoint"""
    out = set(c for c in p if c.isprintable())
    i, inset = 0, False
    toks = []
    while i < len(p):
        c = p[i]
        if c == "\\" and i + 1 < len(p):
            toks.append((p[i + 1], inset, True))
            i += 2
            continue
        if c == "[" and not inset:
            inset = True
        elif c == "]" and inset:
            inset = False
        toks.append((c, inset, False))
        i += 1
    for j in range(1, len(toks) - 1):
        if toks[j] == ("-", True, False) and toks[j - 1][1] and toks[j + 1][1]:
            lo, hi = ord(toks[j - 1][0]), ord(toks[j + 1][0])
            for v in (lo - 1, lo, lo + 1, (lo + hi) // 2, hi - 1, hi, hi + 1):
                if 0x20 <= v < 0x7f:
                    out.add(chr(v))
    return sorted(out)


def gen_pat(rng, depth=3):
    if depth == 0 or rng.random() < 0.3:
        r = rng.random()
        if r < 0.6:
            return rng.choice(LITS), 0
        if r < 0.7:
            return ".", 0
        if r < 0.8:
            return rng.choice(["\\d", "\\s", "\\w"]), 0
        # character set
        items = []
        for _ in range(rng.randint(1, 3)):
            k = rng.random()
            if k < 0.6:
                items.append(rng.choice(["a", "b", "c", "1", "+", "*", "(", ")", "?", "."]))
            elif k < 0.75:
                lo, hi = sorted(rng.sample("abc", 2))
                items.append(lo + "-" + hi)
            elif k < 0.85:
                # range over arbitrary printable endpoints (metacharacters are literal inside a set)
                lo, hi = sorted(rng.sample(RANGE_ENDS, 2))
                items.append(set_escape(lo) + "-" + set_escape(hi))
            else:
                items.append(rng.choice(["\\d", "\\-", "\\]"]))
        neg = "^" if rng.random() < 0.2 else ""
        return "[" + neg + "".join(items) + "]", 1
    k = rng.random()
    if k < 0.35:
        a, na = gen_pat(rng, depth - 1)
        b, nb = gen_pat(rng, depth - 1)
        return a + b, na + nb + 1
    if k < 0.55:
        a, na = gen_pat(rng, depth - 1)
        b, nb = gen_pat(rng, depth - 1)
        return "(" + a + "|" + b + ")", na + nb + 1
    a, na = gen_pat(rng, depth - 1)
    if len(a) > 1 and not (a.startswith("[") and a.endswith("]") and a.count("[") == 1) \
            and not (len(a) == 2 and a[0] == "\\"):
        a = "(" + a + ")"
    if rng.random() < 0.5:
        q = rng.choice(["*", "+", "?"])
    else:
        m = rng.randint(0, 3)
        q = "{%d}" % m if rng.random() < 0.4 else "{%d,%d}" % (m, rng.randint(m, 3))
    return a + q, na + 1


def generate(rng, tier):
    while True:
        p, n = gen_pat(rng, rng.choice([1, 2, 3]))
        yield {"pattern": p, "ops": n, "sseed": rng.randrange(1 << 30)}


def run_case(case, drv):
    import random
    res = CaseResult()
    p = case["pattern"]
    res.nontrivial = case["ops"] >= 2
    scope = ["shortcut_in_set"] if re.search(r"\[(?:\\.|[^\]\\])*\\[dsw]", p) else []
    try:
        cre = re.compile(p)
        valid = True
    except re.error:
        valid = False
    got = outcome(lambda: PythonRegex(p), limit=10.0)
    res.evals += 1
    if not valid:
        res.tag("invalid_pattern")
        if got[0] == "ok":
            res.violation("PythonRegex", "a pattern that Python rejects is accepted", detail={"pattern": p})
        return res
    if got[0] == "timeout":
        res.tag("timeout")
        return res
    if got[0] != "ok":
        res.violation("PythonRegex", "valid pattern refused with %s" % got[1], detail={"pattern": p}, scope=scope)
        return res
    pr = got[1]
    rng = random.Random(case["sseed"])
    strs = ["".join(w) for n in range(0, 3) for w in itertools.product(ALPHA, repeat=n)]
    strs += ["".join(rng.choice(ALPHA) for _ in range(rng.randint(3, 5))) for _ in range(25)]
    probes = probe_chars(p)
    strs += [c for c in probes if c not in ALPHA]
    pool = ALPHA + probes
    strs += ["".join(rng.choice(pool) for _ in range(rng.randint(2, 4))) for _ in range(15)]
    for s in strs:
        want = cre.fullmatch(s) is not None
        g = outcome(lambda s=s: pr.accepts(list(s)), limit=5.0)
        res.evals += 1
        if g != ("ok", want):
            res.violation("accepts", "differs from re.fullmatch", detail={"pattern": p, "string": s, "impl": g, "re": want}, scope=scope)
            break
    return res
