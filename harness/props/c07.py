"""C07 - PythonRegex agrees with Python's re.fullmatch on the documented subset."""
import itertools
import re
from pyformlang.regular_expression import PythonRegex
from ..core import CaseResult, outcome

ID = "C07"
LEVEL = "proof"
RULE = ("random patterns generated from the documented subset (literals, escaped metacharacters, '.', sets and negated "
        "sets with ranges (incl. ranges between arbitrary printable characters, metacharacters as endpoints), alternation, nested groups, * + ? {m} {m,n} incl. m=0 and m=n, quantifier on group/set/escape, "
        "\\d \\s \\w) x all strings of length <=3 over a 7-character printable alphabet plus random longer ones and probe characters derived from the pattern (range endpoints, their neighbours, midpoints); "
        "PythonRegex(p).accepts(s) is compared with re.fullmatch(p, s); half of the patterns are generated as ASTs of the formal subset, for which the tree built by PythonRegex is also compared (whole language) with the verified reference translation; patterns rejected by re.compile must be "
        "rejected. Non-trivial: pattern with >=2 operators.")
EXPLANATION = "CPython's re engine is the specification named by the property and cannot be stated in Lean; what is formal is a semantics of the documented subset (Pfl/Model/PyRegex.lean: Matches), compared with re.fullmatch on every generated string. Against that semantics the whole pipeline is proved correct on the models: pythonRegex_correct_stage4 states that for every pattern of the subset (literals incl. escaped metacharacters, '.', shortcuts, sets and negated sets with ranges, alternation, groups, * + ? {m} {m,n}) the rendered text goes through the model of the seven rewriting passes (Pfl/Model/PyRegexPasses.lean) and the model of the reader of Regex (Pfl/Model/Regex.lean) to a tree that denotes exactly the meaning of the pattern over string.printable. The models are tied to the code on every case: the text the passes hand to Regex is compared exactly, the tree built by PythonRegex is compared with the reference translation by the verified language-equivalence oracle (whole language, trees up to 40 leaves), accepts() with re.fullmatch on sampled strings; the Lean rendering of the AST with the generator's text."
THEOREMS = ["Pfl.PyRx.pythonRegex_correct_stage4",
            "Pfl.PyRx.pythonRegex_correct_stage3",
            "Pfl.PyRx.pythonRegex_correct_stage2",
            "Pfl.PyRx.pythonRegex_correct_stage1",
            "Pfl.PyPass.transform_plain",
            "Pfl.PyRx.desugar_denote",
            "Pfl.PyRx.matches_iff_Matches",
            "Pfl.PyRx.desugar_chars",
            "Pfl.PyRx.rep_iff",
            "Pfl.PyRx.desugar_denote_needs_wellformed",
            "Pfl.Rx.matches_iff",
            "Pfl.Rx.thompson_lang",
            "Pfl.ENFA.langDiff_none_iff",
            "Pfl.ENFA.langDiff_some"]
ALPHA = ["a", "b", "c", "1", " ", "-", "+", "d", "\\"]
CONTROLS = ["\n", "\t"]        # printable too (string.printable); tried as single characters and inside strings
LITS = ["a", "b", "c", "1", "-", "\\+", "\\*", "\\.", "\\(", "\\)", "\\?", "\\|", "\\[", "\\]", " "]


RANGE_ENDS = [chr(c) for c in range(0x21, 0x7f) if chr(c) not in "\\^-"]
RANGE_CTRL = ["\t", "\n", "\x0b", "\x0c", "\r"]      # printable too: a range may start at a control character (KF-C07-2)


def set_escape(ch):
    return "\\" + ch if ch in "[]" else ch


def probe_chars(p):
    """characters worth trying against `p`: its own characters, and for every range inside a set the two
    endpoints, their neighbours and a midpoint"""
    out = set(c for c in p if c.isprintable())
    i, inset = 0, False
    toks = []
    while i < len(p):
        c = p[i]
        if c == "\\" and i + 1 < len(p):
            toks.append((p[i + 1], inset, True))
            i += 2
            continue
        if c == "[" and not inset:
            inset = True
        elif c == "]" and inset:
            inset = False
        toks.append((c, inset, False))
        i += 1
    for j in range(1, len(toks) - 1):
        if toks[j] == ("-", True, False) and toks[j - 1][1] and toks[j + 1][1]:
            lo, hi = ord(toks[j - 1][0]), ord(toks[j + 1][0])
            for v in (lo - 1, lo, lo + 1, (lo + hi) // 2, hi - 1, hi, hi + 1):
                if 0x20 <= v < 0x7f:
                    out.add(chr(v))
    return sorted(out)


def gen_pat(rng, depth=3):
    if depth == 0 or rng.random() < 0.3:
        r = rng.random()
        if r < 0.6:
            return rng.choice(LITS), 0
        if r < 0.7:
            return ".", 0
        if r < 0.8:
            return rng.choice(["\\d", "\\s", "\\w"]), 0
        # character set
        items = []
        for _ in range(rng.randint(1, 3)):
            k = rng.random()
            if k < 0.6:
                items.append(rng.choice(["a", "b", "c", "1", "+", "*", "(", ")", "?", "."]))
            elif k < 0.75:
                lo, hi = sorted(rng.sample("abc", 2))
                items.append(lo + "-" + hi)
            elif k < 0.85:
                # range over arbitrary printable endpoints (metacharacters are literal inside a set)
                lo, hi = sorted(rng.sample(RANGE_ENDS, 2))
                items.append(set_escape(lo) + "-" + set_escape(hi))
            else:
                items.append(rng.choice(["\\d", "\\-", "\\]"]))
        neg = "^" if rng.random() < 0.2 else ""
        return "[" + neg + "".join(items) + "]", 1
    k = rng.random()
    if k < 0.35:
        a, na = gen_pat(rng, depth - 1)
        b, nb = gen_pat(rng, depth - 1)
        return a + b, na + nb + 1
    if k < 0.55:
        a, na = gen_pat(rng, depth - 1)
        b, nb = gen_pat(rng, depth - 1)
        return "(" + a + "|" + b + ")", na + nb + 1
    a, na = gen_pat(rng, depth - 1)
    if len(a) > 1 and not (a.startswith("[") and a.endswith("]") and a.count("[") == 1) \
            and not (len(a) == 2 and a[0] == "\\"):
        a = "(" + a + ")"
    if rng.random() < 0.5:
        q = rng.choice(["*", "+", "?"])
    else:
        m = rng.randint(0, 3)
        q = "{%d}" % m if rng.random() < 0.4 else "{%d,%d}" % (m, rng.randint(m, 3))
    return a + q, na + 1


# ---- second stream: patterns generated as ASTs of the formal subset (Pfl/Model/PyRegex.lean) ------------------
import string
UNIVERSE = string.printable
META = ".^$*+?{}[]\\|()"
LIT_POOL = ["a", "b", "c", "1", " ", "-", "_", "A", "z", "d", "s", "w", "+", "*", ".", "(", ")", "?", "|", "[", "]", "{", "$", "^", "\\", "\t"]
SET_POOL = ["a", "b", "c", "1", "9", " ", "_", "+", "*", "(", ")", "?", ".", "$", "-", "]", "^", "A", "Z", "~", "!"]


def gen_ast(rng, depth):
    if depth == 0 or rng.random() < 0.3:
        r = rng.random()
        if r < 0.5:
            return ["lit", rng.choice(LIT_POOL)]
        if r < 0.6:
            return ["dot"]
        if r < 0.7:
            return ["short", rng.choice("dsw")]
        items = []
        for _ in range(rng.randint(1, 3)):
            k = rng.random()
            if k < 0.55:
                items.append(["c", rng.choice(SET_POOL)])
            elif k < 0.7:
                items.append(["s", rng.choice("dsw")])
            else:
                lo, hi = sorted(rng.sample(RANGE_ENDS, 2))
                if rng.random() < 0.06:
                    lo = rng.choice(RANGE_CTRL)
                    if rng.random() < 0.3:
                        hi = rng.choice([c for c in RANGE_CTRL if c >= lo])
                items.append(["r", lo, hi])
        return ["set", rng.random() < 0.25, items]
    k = rng.random()
    if k < 0.35:
        return ["cat", gen_ast(rng, depth - 1), gen_ast(rng, depth - 1)]
    if k < 0.55:
        return ["alt", gen_ast(rng, depth - 1), gen_ast(rng, depth - 1)]
    a = gen_ast(rng, depth - 1)
    q = rng.random()
    if q < 0.2:
        return ["star", a]
    if q < 0.4:
        return ["plus", a]
    if q < 0.6:
        return ["opt", a]
    m = rng.randint(0, 3)
    return ["rep", a, m, m if rng.random() < 0.4 else rng.randint(m, 3)]


def render_item(it, first):
    def esc(c, first):
        if c in "[]\\" or (c == "^" and first) or c == "-":     # '[' too: CPython warns about a possible nested set
            return "\\" + c
        return c
    if it[0] == "c":
        return esc(it[1], first)
    if it[0] == "s":
        return "\\" + it[1]
    return esc(it[1], first) + "-" + esc(it[2], False)


def render_ast(t, ctx="top"):
    """ctx: top | cat (inside a concatenation) | q (operand of a quantifier)"""
    k = t[0]
    if k == "lit":
        c = t[1]
        return ("\\" + c) if c in META else c
    if k == "dot":
        return "."
    if k == "short":
        return "\\" + t[1]
    if k == "set":
        return "[" + ("^" if t[1] else "") + "".join(render_item(it, i == 0) for i, it in enumerate(t[2])) + "]"
    if k == "cat":
        s_ = render_ast(t[1], "cat") + render_ast(t[2], "cat")
        return "(" + s_ + ")" if ctx == "q" else s_
    if k == "alt":
        s_ = render_ast(t[1], "top") + "|" + render_ast(t[2], "top")
        return "(" + s_ + ")" if ctx != "top" else s_
    inner = render_ast(t[1], "q")
    if t[1][0] in ("star", "plus", "opt", "rep"):
        inner = "(" + inner + ")"
    if k == "star":
        return inner + "*"
    if k == "plus":
        return inner + "+"
    if k == "opt":
        return inner + "?"
    m, n = t[2], t[3]
    return inner + ("{%d}" % m if m == n else "{%d,%d}" % (m, n))


def ast_ops(t):
    return 0 if t[0] in ("lit", "dot", "short") else 1 + sum(ast_ops(x) for x in t[1:] if isinstance(x, list) and x and isinstance(x[0], str) and x[0] in
                                                          ("lit", "dot", "short", "set", "cat", "alt", "star", "plus", "opt", "rep"))


def generate(rng, tier):
    while True:
        if rng.random() < 0.5:
            p, n = gen_pat(rng, rng.choice([1, 2, 3]))
            yield {"pattern": p, "ops": n, "sseed": rng.randrange(1 << 30)}
        else:
            t = gen_ast(rng, rng.choice([1, 2, 3]))
            yield {"pattern": render_ast(t), "ast": t, "ops": ast_ops(t), "sseed": rng.randrange(1 << 30)}


def known_scopes(p):
    """scope predicates of the recorded findings KF-C07-2 / KF-C07-3, computed from the pattern text alone"""
    import string
    out = []
    for m in re.finditer(r"\[\^?((?:\\.|[^\]\\])*)\]", p):
        body = m.group(1)
        # a range inside the set one of whose endpoints is a control character (raw, or written \t \n \r \f \v)
        if re.search(r"(?:[\x00-\x1f]|\\[tnrfv])-.|.-(?:[\x00-\x1f]|\\[tnrfv])", body, re.S):
            out.append("control_range")
        if m.group(0).startswith("[^"):
            try:
                sre = re.compile(m.group(0))
                if not any(sre.fullmatch(c) for c in string.printable):
                    out.append("empty_negated_set")
            except re.error:
                pass
    return sorted(set(out))


def run_case(case, drv):
    import random
    res = CaseResult()
    p = case["pattern"]
    res.nontrivial = case["ops"] >= 2
    scope = ["shortcut_in_set"] if re.search(r"\[(?:\\.|[^\]\\])*\\[dsw]", p) else []
    scope += known_scopes(p)
    try:
        cre = re.compile(p)
        valid = True
    except re.error:
        valid = False
    got = outcome(lambda: PythonRegex(p), limit=10.0)
    res.evals += 1
    if not valid:
        res.tag("invalid_pattern")
        if got[0] == "ok":
            res.violation("PythonRegex", "a pattern that Python rejects is accepted", detail={"pattern": p})
        return res
    if got[0] == "timeout":
        res.tag("timeout")
        return res
    # step-faithful tie of the seven rewriting passes (Pfl/Model/PyRegexPasses.lean): the text handed to Regex
    if all(ord(c) < 128 for c in p):
        mp = drv.call("rx.pyPasses", patterns=[p])[0]
        if mp.get("err") == "unsupported":
            res.tag("passes_unsupported")
        elif got[0] == "ok":
            res.corr += 1
            if mp.get("out") != getattr(got[1], "_python_regex", None):
                res.corr_break("PythonRegex", "rewritten text differs from the model of the passes",
                               detail={"pattern": p, "impl": getattr(got[1], "_python_regex", None), "model": mp})
            res.tag("passes_tie")
        elif "err" in mp:
            res.corr += 1
            if mp["err"] != got[1]:
                res.corr_break("PythonRegex", "exception class differs from the model of the passes",
                               detail={"pattern": p, "impl": got[1], "model": mp})
    if got[0] != "ok":
        res.violation("PythonRegex", "valid pattern refused with %s" % got[1], detail={"pattern": p}, scope=scope)
        return res
    pr = got[1]
    rng = random.Random(case["sseed"])
    strs = ["".join(w) for n in range(0, 3) for w in itertools.product(ALPHA, repeat=n)]
    strs += ["".join(rng.choice(ALPHA) for _ in range(rng.randint(3, 5))) for _ in range(25)]
    strs += CONTROLS + [a + c for a in ("a", "1") for c in CONTROLS] + list(case.get("extra_strings", []))
    probes = probe_chars(p)
    strs += [c for c in probes if c not in ALPHA]
    pool = ALPHA + probes
    strs += ["".join(rng.choice(pool) for _ in range(rng.randint(2, 4))) for _ in range(15)]
    ast = case.get("ast")
    if ast is not None:
        from .. import rxdom as X
        strs = [x for x in strs if all(c in UNIVERSE for c in x)]
        m = drv.call("rx.py", pattern=ast, universe=UNIVERSE, strings=strs)
        res.corr += 1
        res.tag("ast_stream")
        if m.get("text") != p:
            res.corr_break("render", "pattern text differs from the Lean rendering of the AST",
                           detail={"ast": ast, "python": p, "lean": m.get("text")})
            return res
        # (1) the formal semantics against CPython, string by string
        for s_, mm in zip(strs, m["matches"]):
            if (cre.fullmatch(s_) is not None) != mm:
                res.corr_break("PyRx.Matches", "formal semantics of the subset differs from re.fullmatch",
                               detail={"pattern": p, "ast": ast, "string": s_, "re": not mm, "model": mm})
                return res
        # (2) the tree PythonRegex builds against the reference translation: full language equivalence
        st_t, tree = outcome(lambda: X.tree_of(pr))
        if st_t == "ok" and len(X.symbols(tree)) <= 40:
            from ..core import DrvError
            try:
                e = drv.call("rx.equiv", _timeout=6.0, t1=tree, t2=m["tree"])
            except DrvError:
                res.tag("equiv_too_big")
                e = {"equiv": True}
            res.evals += 1
            res.tag("equiv_decided")
            if not e["equiv"]:
                w_ = "".join(e["word"] or [])
                res.violation("accepts", "differs from re.fullmatch",
                              detail={"pattern": p, "string": w_, "re": cre.fullmatch(w_) is not None,
                                      "found_by": "language equivalence with the reference translation"}, scope=scope)
                return res
    for s in strs:
        want = cre.fullmatch(s) is not None
        g = outcome(lambda s=s: pr.accepts(list(s)), limit=5.0)
        res.evals += 1
        if g != ("ok", want):
            res.violation("accepts", "differs from re.fullmatch", detail={"pattern": p, "string": s, "impl": g, "re": want}, scope=scope)
            break
    return res
