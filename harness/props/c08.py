"""C08 - CFG membership answers are exactly derivability from the start symbol."""
from .. import cfgdom as G
from ..core import CaseResult, outcome

ID = "C08"
RULE = ("random context-free grammars (1-4 variables, 1-3 terminals, 1-8 productions: epsilon, unit, terminal, "
        "binary and long bodies, recursion, useless symbols, occasional adversarial names that look like the "
        "library's fresh names) x all words of length <=4 over the terminals plus words with an unknown symbol; "
        "contains / `in` / generate_epsilon are compared with the Lean model (normal form + CYK) and with the "
        "independent span-saturation membership oracle. Non-trivial: >=2 productions, one with a body of length >=2.")
THEOREMS = ["Pfl.CFG.contains_isSome",
            "Pfl.CFG.cfgMem_iff",
            "Pfl.CFG.mem_langUpTo_iff",
            "Pfl.CFG.langUpTo_nodup",
            "Pfl.CFG.generateEpsilon_iff",
            "Pfl.CFG.toNormalForm_lang",
            "Pfl.CFG.toNormalForm_isNormalForm",
            "Pfl.CFG.cyk_iff",
            "Pfl.CFG.contains_iff"]


def generate(rng, tier):
    while True:
        yield {"g": (G.gen_cfg(rng, max_vars=5, max_prods=11) if tier == "thorough" and rng.random() < 0.25 else G.gen_cfg(rng)), "wseed": rng.randrange(1 << 30)}


def cyk_table_tie(cfg, words, drv, res):
    """hidden state of contains(): every cell of the CYK table the implementation fills for a word (the heads
    of its nodes) against the cells of the Lean recogniser run on the implementation's own normal form"""
    from pyformlang.cfg.cyk_table import CYKTable
    st, n = outcome(lambda: G.extract(cfg.to_normal_form()), limit=8.0)
    if st != "ok":
        return
    ws = [w for w in words if 1 <= len(w) <= 4 and all(isinstance(x, str) for x in w)][:12]
    if not ws:
        return
    model = drv.call("cfg.cykTable", G=n, words=ws)
    for w, mt in zip(ws, model):
        st, tb = outcome(lambda w=w: CYKTable(cfg, [G.sym(["t", x]) for x in w])._cyk_table, limit=3.0)  # pylint: disable=protected-access
        if st != "ok":
            res.tag("cyk_table_unreadable")
            return
        impl = {(j - i, i): sorted(getattr(x.value, "value", x.value) for x in cell) for (i, j), cell in tb.items()}
        want = {(ln, i): sorted(vs) for ln, i, vs in mt}
        res.corr += 1
        if len(tb) == 1 and impl.get((len(w), 0)) == []:
            # a letter no production writes: the implementation fills nothing, the answer is the empty top cell
            if want.get((len(w), 0), []) != [] and all(any(b == [["t", x]] for _, b in n["prods"]) for x in w):
                res.corr_break("contains", "CYK table abandoned although every letter is written by a production",
                               detail={"word": w})
            continue
        if impl != want:
            res.corr_break("contains", "cells of the CYK table differ from the model",
                           detail={"word": w, "impl": {str(k): v for k, v in impl.items()},
                                   "model": {str(k): v for k, v in want.items()}})
            return
    res.tag("cyk_table_tie")


def run_case(case, drv):
    import random
    res = CaseResult()
    spec = case["g"]
    st, cfg = outcome(lambda: G.build(spec))
    if st != "ok":
        res.tag("build_fail")
        return res
    g = G.extract(cfg)
    res.nontrivial = G.is_nontrivial(spec)
    res.tag("nprod_%d" % min(len(spec["prods"]), 8))
    ters = sorted(set(g["ters"]))
    rng = random.Random(case.get("wseed", 0))
    words = G.words_upto(ters, 3 if len(ters) > 2 else 4)
    for _ in range(4):
        words.append([rng.choice(ters + ["zz"]) for _ in range(rng.randint(1, 5))])
    for _ in range(3):
        words.append([rng.choice(ters + ["zz"][:1 - min(1, len(ters))]) for _ in range(rng.randint(5, 7))])
    model = drv.call("cfg.contains", G=g, words=words)
    oracle = drv.call("cfg.member", G=g, words=words)
    # the first call computes and caches the normal form; give it more time
    first = True
    for i, w in enumerate(words):
        got = outcome(lambda w=w: cfg.contains(w), limit=(8.0 if first else 3.0))
        first = False
        res.evals += 1
        res.corr += 1
        want = oracle[i]
        if want is None:
            res.tag("oracle_fuel")
            continue
        agrees = got == ("ok", model[i])
        if got != ("ok", want):
            res.violation("contains", "contains(w) differs from derivability", model_agrees=agrees,
                          detail={"word": w, "impl": got, "spec": want})
            if got[0] == "timeout":
                break
        elif not agrees:
            res.corr_break("contains", "differs from model", detail={"word": w, "impl": got, "model": model[i]})
    # the word may be any iterable of terminals or strings: tuples, one-shot iterators, generators, Terminal objects
    from pyformlang.cfg import Terminal
    shapes = [("tuple", tuple), ("iterator", iter), ("generator", lambda w: (x for x in w)),
              ("terminals", lambda w: [Terminal(x) for x in w]), ("map", lambda w: map(str, w))]
    for i, w in enumerate(words[:10]):
        name, mk = shapes[(i + len(words)) % len(shapes)]
        got = outcome(lambda w=w, mk=mk: cfg.contains(mk(w)), limit=3.0)
        res.evals += 1
        if oracle[i] is not None and got != ("ok", oracle[i]):
            res.violation("contains", "contains(w) differs from derivability when the word is given as a %s" % name,
                          detail={"word": w, "impl": got, "spec": oracle[i]})
            break
    for w in words[:8]:
        got = outcome(lambda w=w: w in cfg, limit=3.0)
        res.evals += 1
        j = words.index(w)
        if oracle[j] is not None and got != ("ok", oracle[j]):
            res.violation("__contains__", "`w in cfg` differs from derivability", detail={"word": w, "impl": got})
    cyk_table_tie(cfg, words, drv, res)
    got = outcome(cfg.generate_epsilon)
    res.evals += 1
    if oracle[0] is not None and got != ("ok", oracle[0]):
        res.violation("generate_epsilon", "differs from derivability of the empty word", detail={"impl": got})
    return res
