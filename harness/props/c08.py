"""C08 - CFG membership answers are exactly derivability from the start symbol."""
from .. import cfgdom as G
from ..core import CaseResult, outcome

ID = "C08"
RULE = ("random context-free grammars (1-4 variables, 1-3 terminals, 1-8 productions: epsilon, unit, terminal, "
        "binary and long bodies, recursion, useless symbols, occasional adversarial names that look like the "
        "library's fresh names) x all words of length <=4 over the terminals plus words with an unknown symbol; "
        "contains / `in` / generate_epsilon are compared with the Lean model (normal form + CYK) and with the "
        "independent span-saturation membership oracle. Non-trivial: >=2 productions, one with a body of length >=2.")
THEOREMS = ["Pfl.CFG.cfgMem_iff",
            "Pfl.CFG.mem_langUpTo_iff",
            "Pfl.CFG.langUpTo_nodup",
            "Pfl.CFG.generateEpsilon_iff",
            "Pfl.CFG.toNormalForm_lang",
            "Pfl.CFG.toNormalForm_isNormalForm",
            "Pfl.CFG.cyk_iff",
            "Pfl.CFG.contains_iff"]


def generate(rng, tier):
    while True:
        yield {"g": (G.gen_cfg(rng, max_vars=5, max_prods=11) if tier == "thorough" and rng.random() < 0.25 else G.gen_cfg(rng)), "wseed": rng.randrange(1 << 30)}


def run_case(case, drv):
    import random
    res = CaseResult()
    spec = case["g"]
    st, cfg = outcome(lambda: G.build(spec))
    if st != "ok":
        res.tag("build_fail")
        return res
    g = G.extract(cfg)
    res.nontrivial = G.is_nontrivial(spec)
    res.tag("nprod_%d" % min(len(spec["prods"]), 8))
    ters = sorted(set(g["ters"]))
    rng = random.Random(case.get("wseed", 0))
    words = G.words_upto(ters, 3 if len(ters) > 2 else 4)
    for _ in range(4):
        words.append([rng.choice(ters + ["zz"]) for _ in range(rng.randint(1, 5))])
    for _ in range(3):
        words.append([rng.choice(ters + ["zz"][:1 - min(1, len(ters))]) for _ in range(rng.randint(5, 7))])
    model = drv.call("cfg.contains", G=g, words=words)
    oracle = drv.call("cfg.member", G=g, words=words)
    # the first call computes and caches the normal form; give it more time
    first = True
    for i, w in enumerate(words):
        got = outcome(lambda w=w: cfg.contains(w), limit=(8.0 if first else 3.0))
        first = False
        res.evals += 1
        res.corr += 1
        want = oracle[i]
        if want is None:
            res.tag("oracle_fuel")
            continue
        agrees = got == ("ok", model[i])
        if got != ("ok", want):
            res.violation("contains", "contains(w) differs from derivability", model_agrees=agrees,
                          detail={"word": w, "impl": got, "spec": want})
            if got[0] == "timeout":
                break
        elif not agrees:
            res.corr_break("contains", "differs from model", detail={"word": w, "impl": got, "model": model[i]})
    # the word may be any iterable of terminals or strings: tuples, one-shot iterators, generators, Terminal objects
    from pyformlang.cfg import Terminal
    shapes = [("tuple", tuple), ("iterator", iter), ("generator", lambda w: (x for x in w)),
              ("terminals", lambda w: [Terminal(x) for x in w]), ("map", lambda w: map(str, w))]
    for i, w in enumerate(words[:10]):
        name, mk = shapes[(i + len(words)) % len(shapes)]
        got = outcome(lambda w=w, mk=mk: cfg.contains(mk(w)), limit=3.0)
        res.evals += 1
        if oracle[i] is not None and got != ("ok", oracle[i]):
            res.violation("contains", "contains(w) differs from derivability when the word is given as a %s" % name,
                          detail={"word": w, "impl": got, "spec": oracle[i]})
            break
    for w in words[:8]:
        got = outcome(lambda w=w: w in cfg, limit=3.0)
        res.evals += 1
        j = words.index(w)
        if oracle[j] is not None and got != ("ok", oracle[j]):
            res.violation("__contains__", "`w in cfg` differs from derivability", detail={"word": w, "impl": got})
    got = outcome(cfg.generate_epsilon)
    res.evals += 1
    if oracle[0] is not None and got != ("ok", oracle[0]):
        res.violation("generate_epsilon", "differs from derivability of the empty word", detail={"impl": got})
    return res
