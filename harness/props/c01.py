"""C01 - acceptance is run semantics; to_deterministic / remove_epsilon_transitions /
minimize / copy keep the language and have the advertised shape."""
from pyformlang.finite_automaton import (DeterministicFiniteAutomaton,
                                         NondeterministicFiniteAutomaton)
from .. import fa as F
from ..core import CaseResult, outcome

ID = "C01"
RULE = ("random epsilon-NFA/NFA/DFA specs (0-5 states, 1-3 symbols, int / random-string / adversarial "
        "state names) built through the public API, plus every automaton with <=2 states over 1 symbol "
        "in the thorough tier; each case checks accepts on all words <=4 (+foreign, +epsilon spellings), "
        "eclose, remove_epsilon_transitions, to_deterministic, copy, minimize against the Lean model "
        "(structure) and the verified language-equivalence oracle. Non-trivial: >=2 states, >=2 "
        "transitions, a start and a final state.")
THEOREMS = ["Pfl.ENFA.toDet_isSome",
            "Pfl.ENFA.toDet_named_total",
            "Pfl.ENFA.mergeName_keyCongr",
            "Pfl.ENFA.detSeen_order_counterexample",
            "Pfl.ENFA.acceptsE_iff",
            "Pfl.ENFA.acceptsN_iff",
            "Pfl.ENFA.acceptsD_iff",
            "Pfl.ENFA.removeEps_lang",
            "Pfl.ENFA.removeEps_epsFree",
            "Pfl.ENFA.copyE_lang",
            "Pfl.ENFA.copyD_lang",
            "Pfl.ENFA.toDet_lang",
            "Pfl.ENFA.toDet_lang_noEps",
            "Pfl.ENFA.toDet_shape",
            "Pfl.ENFA.langDiff_none_iff",
            "Pfl.ENFA.langDiff_some",
            "Pfl.ENFA.member_iff",
            "Pfl.Names.mergeName_keyInj",
            "Pfl.Names.toDet_named_lang_partial",
            "Pfl.Names.toDet_named_lang_false"]


def generate(rng, tier):
    while True:
        spec = F.gen_fa(rng, allow_via_tf=True)
        yield {"fa": spec, "wseed": rng.randrange(1 << 30)}


def exhaustive(tier):
    if tier != "thorough":
        return
    for cls in "END":
        for n in (1, 2):
            for spec in F.enumerate_fa(n, 1, cls):
                yield {"fa": spec, "wseed": 0}


def check_equiv(res, drv, op, A, R_num, scope, model_agrees):
    res.evals += 1
    d = drv.call("fa.diff", A=A, B=R_num)
    if not d["equiv"]:
        res.violation(op, "result language differs from the source language",
                      detail={"word": d["word"]}, scope=scope, model_agrees=model_agrees)
        return False
    return True


def run_case(case, drv):
    import random
    res = CaseResult()
    spec = case["fa"]
    cls = spec["cls"]
    st, fa = outcome(lambda: F.build(spec))
    if st != "ok":
        res.tag("build_" + str(fa))
        return res
    if spec.get("via_tf"):
        # the transition function was filled first and handed to the constructor: the automaton must answer as
        # its twin built with add_transition (two runs of the real code certify a difference)
        res.tag("via_transition_function")
        twin_spec = dict(spec, via_tf=False, prechurn=[], churn=[], churn_query=False)
        st, twin = outcome(lambda: F.build(twin_spec))
        if st == "ok":
            words = F.words_upto(list(spec["symvals"]), 3)[:40]

            def sig(x):
                return {"accepts": [x.accepts(w) for w in words], "copy": [x.copy().accepts(w) for w in words],
                        "det": [x.to_deterministic().accepts(w) for w in words],
                        "noeps": [x.remove_epsilon_transitions().accepts(w) for w in words] if hasattr(x, "remove_epsilon_transitions") else None,
                        "min": [x.minimize().accepts(w) for w in words],
                        "empty": x.is_empty(), "states": sorted(str(s.value) for s in x.states),
                        "symbols": sorted(str(s.value) for s in x.symbols)}
            a, b = outcome(lambda: sig(fa), limit=8.0), outcome(lambda: sig(twin), limit=8.0)
            res.evals += 1
            if a != b and "timeout" not in (a[0], b[0]):
                diff = [k for k in (a[1] if a[0] == "ok" else {}) if b[0] == "ok" and a[1][k] != b[1][k]] or [a[0], b[0]]
                res.violation("constructor_transition_function", "an automaton whose transition function was given to "
                              "the constructor answers differently from the same automaton built with add_transition: %s" % diff,
                              detail={"spec": {k: spec[k] for k in ("cls", "svals", "symvals", "starts", "finals", "delta")},
                                      "differs_in": diff})
                return res
    scodes, ycodes = F.Codes(spec["svals"]), F.Codes(spec["symvals"])
    A = F.extract(fa, scodes, ycodes)
    names = [str(v) for v in scodes.values]
    clean = F.names_clean(spec["svals"])
    scope = [] if clean else ["unclean_names"]
    res.nontrivial = F.is_nontrivial(spec)
    res.tag("cls_" + cls)
    res.tag("n%d" % len(spec["svals"]))
    if any(t[1] is None for t in spec["delta"]):
        res.tag("has_eps")
    if not clean:
        res.tag("unclean_names")

    # ---- accepts -----------------------------------------------------------------
    rng = random.Random(case.get("wseed", 0))
    k = len(spec["symvals"])
    words = F.words_upto(list(range(k)), 3 if k > 2 else 4)
    foreign = k  # a symbol code outside the alphabet
    yv = list(spec["symvals"]) + ["zz"]
    extra = []
    for _ in range(6):
        w = [rng.randrange(k + 1) for _ in range(rng.randint(1, 6))]
        extra.append(w)
    eps_words = []
    for _ in range(3):
        w = [rng.choice(list(range(k)) + [None]) for _ in range(rng.randint(1, 4))]
        eps_words.append(w)
    allw = words + extra
    py = lambda w: [("epsilon" if a is None else yv[a]) for a in w]  # noqa: E731
    impl = [outcome(lambda w=w: fa.accepts(py(w))) for w in allw + eps_words]
    model = drv.call("fa.accepts", A=A, cls=cls, words=allw + eps_words)
    oracle = drv.call("fa.member", A=A, words=allw)
    for i, w in enumerate(allw + eps_words):
        res.corr += 1
        got = impl[i]
        if got != ("ok", model[i]):
            if i < len(allw) and got == ("ok", oracle[i]):
                res.corr_break("accepts", "implementation differs from model", detail={"word": w, "impl": got, "model": model[i]})
        if i < len(allw):
            res.evals += 1
            if got != ("ok", oracle[i]):
                res.violation("accepts", "accepts(w) differs from run semantics",
                              detail={"word": w, "impl": got, "spec": oracle[i]},
                              model_agrees=(got == ("ok", model[i])))
    # ---- eclose ------------------------------------------------------------------
    qs = list(range(len(spec["svals"])))
    if qs:
        impl_ec = [sorted(scodes.code(s) for s in fa.eclose(spec["svals"][q])) for q in qs]
        model_ec = [sorted(set(x)) for x in drv.call("fa.eclose", A=A, qs=qs)]
        res.corr += 1
        if impl_ec != model_ec:
            res.corr_break("eclose", "eclose differs from model", detail={"impl": impl_ec, "model": model_ec})
    # ---- remove_epsilon_transitions --------------------------------------------
    st, R = outcome(fa.remove_epsilon_transitions)
    if st != "ok":
        res.violation("remove_epsilon_transitions", "raised %s" % R, detail={"outcome": [st, R]})
    else:
        Rx = F.extract(R, scodes, ycodes)
        M = drv.call("fa.removeEps", A=A)
        res.corr += 1
        diff = F.same(Rx, M)
        agrees = not diff
        ok = check_equiv(res, drv, "remove_epsilon_transitions", A, F.renumber(Rx), [], agrees)
        res.evals += 1
        if any(t[1] is None for t in Rx["delta"]) or not isinstance(R, NondeterministicFiniteAutomaton):
            res.violation("remove_epsilon_transitions", "result is not epsilon-free", model_agrees=agrees)
            ok = False
        if diff and ok:
            res.corr_break("remove_epsilon_transitions", "structure differs from model: %s" % diff,
                           detail={"impl": Rx, "model": M})
    # ---- to_deterministic ------------------------------------------------------
    st, D = outcome(fa.to_deterministic)
    if st != "ok":
        res.violation("to_deterministic", "raised %s" % D, detail={"outcome": [st, D]}, scope=scope)
    elif cls == "D":
        res.corr += 1
        if D is not fa:
            res.corr_break("to_deterministic", "DFA.to_deterministic no longer returns self")
            check_equiv(res, drv, "to_deterministic", A, F.renumber(F.extract_named(D, ycodes)), scope, False)
    else:
        Dx = F.extract_named(D, ycodes)
        M = drv.call("fa.toDet", A=A, names=names, useE=(cls == "E"))
        res.corr += 1
        diff = F.same(Dx, M)
        agrees = not diff
        if diff and scope:
            # colliding names: which subsets get merged depends on set-iteration order, which the bug-compatible
            # model cannot always follow; the defect is attributed to the naming scheme (KF-C01-1) exactly when
            # the same automaton with injectively renamed (clean) states is determinised correctly
            kspec = dict(spec)
            kspec["svals"] = ["q%d" % i for i in range(len(spec["svals"]))]
            st_k, Dk = outcome(lambda: F.build(kspec).to_deterministic())
            if st_k == "ok":
                dk = drv.call("fa.diff", A=A, B=F.renumber(F.extract_named(Dk, ycodes)))
                if dk["equiv"]:
                    agrees = True
                    res.tag("attributed_by_renaming")
        ok = check_equiv(res, drv, "to_deterministic", A, F.renumber(Dx), scope, agrees)
        res.evals += 1
        if not (isinstance(D, DeterministicFiniteAutomaton) and F.structurally_deterministic(Dx)):
            res.violation("to_deterministic", "result is not deterministic", scope=scope, model_agrees=agrees)
            ok = False
        if diff and ok and scope:
            res.tag("structure_differs_under_colliding_names")
        elif diff and ok:
            res.corr_break("to_deterministic", "structure differs from model: %s" % diff,
                           detail={"impl": Dx, "model": M})
    # ---- copy ------------------------------------------------------------------
    st, C = outcome(fa.copy)
    if st != "ok":
        res.violation("copy", "raised %s" % C, detail={"outcome": [st, C]})
    else:
        Cx = F.extract(C, scodes, ycodes)
        M = drv.call("fa.copy", A=A, cls=("D" if cls == "D" else "E"))
        res.corr += 1
        diff = F.same(Cx, M)
        ok = check_equiv(res, drv, "copy", A, F.renumber(Cx), [], not diff)
        if C is fa:
            res.violation("copy", "copy returned the same object")
        if diff and ok:
            res.corr_break("copy", "structure differs from model: %s" % diff, detail={"impl": Cx, "model": M})
    # ---- minimize (language + shape; reducedness is C02) -----------------------
    st, Mi = outcome(fa.minimize)
    if st != "ok":
        res.violation("minimize", "raised %s" % Mi, detail={"outcome": [st, Mi]}, scope=scope)
    else:
        Mx = F.extract_named(Mi, ycodes)
        ok = check_equiv(res, drv, "minimize", A, F.renumber(Mx), scope, False)
        res.evals += 1
        if not (isinstance(Mi, DeterministicFiniteAutomaton) and F.structurally_deterministic(Mx)):
            res.violation("minimize", "result is not deterministic", scope=scope)
    return res
