"""C12 - CFG emptiness, finiteness, symbol classes and word enumeration are exact."""
from .. import cfgdom as G
from ..core import CaseResult, outcome

ID = "C12"
RULE = ("random context-free grammars as in C08; get_generating_symbols / get_nullable_symbols / "
        "get_reachable_symbols / is_empty / is_finite are compared with the Lean model, get_words(n) for n=0..5 and "
        "unbounded (when the model proves the language finite) with the independent bounded-language oracle. "
        "Non-trivial: >=2 productions, one with a body of length >=2.")
THEOREMS = ["Pfl.CFG.isFinite_isSome",
            "Pfl.CFG.getWords_isSome",
            "Pfl.CFG.getWords_unbounded_terminates_iff",
            "Pfl.CFG.genCounters_isSome",
            "Pfl.CFG.mem_generating_iff",
            "Pfl.CFG.mem_nullable_iff",
            "Pfl.CFG.mem_reachable_iff",
            "Pfl.CFG.isEmpty_iff",
            "Pfl.CFG.generateEpsilon_iff",
            "Pfl.CFG.generating_nodup",
            "Pfl.CFG.nullable_nodup",
            "Pfl.CFG.getWords_exact",
            "Pfl.CFG.getWords_exact_unbounded",
            "Pfl.CFG.isFinite_iff",
            "Pfl.CFG.cfgMem_iff",
            "Pfl.CFG.mem_langUpTo_iff",
            "Pfl.CFG.genCounters_generating",
            "Pfl.CFG.genCounters_nullable",
            "Pfl.CFG.genCounters_restores"]


def gen_cnf_shaped(rng):
    """a grammar already in Chomsky normal form, every variable generating, with an unreachable part that may lie on
    a cycle (finiteness must look at the reachable part only) or a reachable cycle"""
    vs = ["S", "A", "B", "C"][:rng.randint(2, 4)]
    prods = [[v, [["t", rng.choice("ab")]]] for v in vs]                       # every variable generating
    reach = vs[:rng.randint(1, len(vs))]                                       # S reaches only these (acyclic chain)
    for i, v in enumerate(reach[:-1]):
        prods.append([v, [["v", reach[i + 1]], ["v", rng.choice(reach[i + 1:])]]])
    for v in vs:
        if v not in reach and rng.random() < 0.7:
            prods.append([v, [["v", rng.choice(vs)], ["v", v]]])                 # a cycle outside the reachable part
    if rng.random() < 0.25:
        v = rng.choice(reach)
        prods.append([v, [["v", v], ["v", rng.choice(reach)]]])                  # sometimes a reachable cycle
    return {"vars": [], "ters": [], "start": "S", "prods": prods, "as_list": rng.random() < 0.3}


def generate(rng, tier):
    while True:
        if rng.random() < 0.08:
            yield {"g": gen_cnf_shaped(rng)}
            continue
        yield {"g": (G.gen_cfg(rng, max_vars=5, max_prods=11) if tier == "thorough" and rng.random() < 0.25 else G.gen_cfg(rng))}


def symset(xs):
    return sorted({(G.xsym(x)[0], G.xsym(x)[1]) for x in xs if x is not None})


def run_case(case, drv):
    res = CaseResult()
    spec = case["g"]
    st, cfg = outcome(lambda: G.build(spec))
    if st != "ok":
        res.tag("build_fail")
        return res
    g = G.extract(cfg)
    res.nontrivial = G.is_nontrivial(spec)
    cl = drv.call("cfg.classes", G=g)
    for pyname, key in (("get_generating_symbols", "generating"), ("get_nullable_symbols", "nullable"),
                        ("get_reachable_symbols", "reachable")):
        got = outcome(lambda: symset(getattr(cfg, pyname)()))
        want = sorted({tuple(s) for s in cl[key]})
        res.corr += 1
        res.evals += 1
        if got != ("ok", want):
            res.violation(pyname, "differs from the exact symbol class",
                          detail={"impl": got, "spec": want})
    G.counter_tie(cfg, drv, res)
    got = outcome(cfg.is_empty)
    res.evals += 1
    if got != ("ok", cl["isEmpty"]):
        res.violation("is_empty", "differs from language emptiness", detail={"impl": got, "spec": cl["isEmpty"]})
    got = outcome(cfg.is_finite, limit=8.0)
    res.evals += 1
    fin = cl["isFinite"]
    if fin is not None and got != ("ok", fin):
        res.violation("is_finite", "differs from finiteness of the language", detail={"impl": got, "spec": fin})
    res.tag("finite_%s" % fin)
    ters = sorted(set(g["ters"]))
    nmax = 4 if len(ters) <= 2 else 3
    lang = drv.call("cfg.langUpTo", G=g, n=nmax)
    bounds = list(range(0, nmax + 1))
    for n in bounds:
        def run(n=n):
            out = []
            for w in cfg.get_words(n):
                out.append([x.value for x in w])
                if len(out) > 3000:
                    break
            return out
        got = outcome(run, limit=8.0)
        res.evals += 1
        want = [w for w in lang if len(w) <= n]
        if got[0] != "ok":
            res.violation("get_words", "raised / hung: %s" % (got,), detail={"n": n})
            break
        ws = got[1]
        model = drv.call("cfg.getWords", G=g, max=n)
        res.corr += 1
        agrees = model is not None and sorted(model) == sorted(ws)
        if sorted(ws) != sorted(want):
            res.violation("get_words", "yielded words differ from the language up to n", model_agrees=agrees,
                          detail={"n": n, "missing": [w for w in want if w not in ws][:3],
                                  "extra": [w for w in ws if w not in want][:3],
                                  "duplicates": len(ws) != len({tuple(w) for w in ws})})
        elif not agrees and model is not None:
            res.corr_break("get_words", "multiset differs from model", detail={"n": n, "impl": ws, "model": model})
    if fin is True:
        def run_all():
            out = []
            for w in cfg.get_words():
                out.append([x.value for x in w])
                if len(out) > 3000:
                    break
            return out
        got = outcome(run_all, limit=8.0)
        res.evals += 1
        model = drv.call("cfg.getWords", G=g, max=None)
        if got[0] != "ok":
            res.violation("get_words", "unbounded enumeration of a finite language raised / hung", detail={"impl": got})
        elif len(got[1]) > 3000:
            res.tag("unbounded_enumeration_truncated")      # the harness stopped the generator: nothing to compare
        elif model is not None:
            short = [w for w in got[1] if len(w) <= nmax]
            if sorted(short) != sorted(lang):
                res.violation("get_words", "unbounded enumeration misses or invents short words")
            elif sorted(model) != sorted(got[1]):
                # the model's unbounded enumeration is proved exact (getWords_exact_unbounded): decide the words
                # on which the two lists differ with the independent membership oracle
                miss = [w for w in model if w not in got[1]][:6]
                extra = [w for w in got[1] if w not in model][:6]
                mem = drv.call("cfg.member", G=g, words=miss + extra) if (miss or extra) else []
                if any(m is True for m in mem[:len(miss)]):
                    res.violation("get_words", "unbounded enumeration of a finite language misses a member word",
                                  detail={"missing": [w for w, m in zip(miss, mem) if m], "yielded": len(got[1])})
                elif any(m is False for m in mem[len(miss):]):
                    res.violation("get_words", "unbounded enumeration yields a word that is not generated",
                                  detail={"extra": [w for w, m in zip(extra, mem[len(miss):]) if m is False]})
                else:
                    res.corr_break("get_words", "unbounded multiset differs from model",
                                   detail={"impl": got[1][:10], "model": model[:10]})
    return res
