"""C16 - FST translation is the transduction relation; FST operations compose relations."""
from pyformlang.fst import FST
from .. import fa as F
from ..core import CaseResult, outcome

ID = "C16"
RULE = ("random transducers (1-4 string-named states shared between operands so that renaming is exercised, "
        "nondeterministic, several start/final states, epsilon-input moves whose cycles write nothing, start states with "
        "incoming and final states with outgoing edges) x all input words of length <=3; list(translate(w)) is compared "
        "with the Lean model (multiset) and with the exact relational oracle (set of outputs), union / concatenate / "
        "kleene_star structurally with the model and relationally with the composition of the operand relations, "
        "FiniteAutomaton.to_fst with the identity on the automaton's language. Non-trivial: >=2 states and >=3 transitions.")
LEVEL = "proof"
THEOREMS = ["Pfl.FST.translate_bounded_isSome",
            "Pfl.FST.translate_isSome",
            "Pfl.FST.translate_total",
            "Pfl.FST.translate_diverges",
            "Pfl.FST.relOutputs_iff",
            "Pfl.FST.translate_exact",
            "Pfl.FST.rename_injective",
            "Pfl.FST.union_rel",
            "Pfl.FST.concatenate_rel",
            "Pfl.FST.kleeneStar_rel",
            "Pfl.ENFA.member_iff",
            "Pfl.ENFA.toFST_rel"]
NAMES = ["q0", "q1", "q2", "q3", "a", "a0", "star", "star0"]


def gen_fst(rng, alpha="ab"):
    n = rng.randint(1, 4)
    states = rng.sample(NAMES, n) if rng.random() < 0.4 else NAMES[:n]
    delta = []
    silent = rng.random() < 0.5   # all epsilon moves silent (cycles allowed) / forward-only epsilon moves
    for _ in range(rng.randint(1, 6)):
        i, j = rng.randrange(n), rng.randrange(n)
        if rng.random() < 0.3:
            # the property is about transducers whose epsilon cycles write nothing
            if silent or i == j:
                delta.append([states[i], None, states[j], []])
            else:
                i, j = min(i, j), max(i, j)
                delta.append([states[i], None, states[j], [rng.choice("xy")] if rng.random() < 0.5 else []])
        else:
            out = [rng.choice("xy") for _ in range(rng.choice([0, 1, 1, 2]))]
            delta.append([states[i], rng.choice(alpha), states[j], out])
    return {"states": states, "starts": rng.sample(states, min(n, rng.choice([1, 1, 2]))),
            "finals": rng.sample(states, min(n, rng.choice([0, 1, 1, 2]))), "delta": delta}


def build(spec):
    t = FST()
    for s in spec["starts"]:
        t.add_start_state(s)
    for s in spec["finals"]:
        t.add_final_state(s)
    for q, a, r, o in spec["delta"]:
        t.add_transition(q, "epsilon" if a is None else a, r, list(o))
    return t


def extract(t):
    delta = []
    for (q, a), outs in t.transitions.items():
        for r, o in outs:
            delta.append([q, None if a == "epsilon" else a, r, list(o)])
    return {"states": list(t.states), "starts": list(t.start_states), "finals": list(t.final_states), "delta": delta}


def canon(t):
    return {"starts": sorted(set(t["starts"])), "finals": sorted(set(t["finals"])),
            "delta": sorted({(q, a or "", r, tuple(o)) for q, a, r, o in t["delta"]})}


class TooManyOutputs(Exception):
    pass


def capped(gen, cap=4000):
    """transducers whose epsilon cycles write nothing have finitely many outputs per word: an enumeration that
    does not stop is a failure, not a reason to fill the memory"""
    for i, x in enumerate(gen):
        if i >= cap:
            raise TooManyOutputs()
        yield x


def words3(alpha="ab"):
    out = [[]]
    for n in (1, 2, 3):
        import itertools
        out += [list(w) for w in itertools.product(alpha, repeat=n)]
    return out


def generate(rng, tier):
    while True:
        # unusual but legal input letters: "\u025b" means epsilon for automata, not for transducers
        alpha = "ab" if rng.random() < 0.85 else rng.choice(["a\u025b", "a$", "a\u03b5"])
        yield {"a": gen_fst(rng, alpha), "b": gen_fst(rng, alpha), "fa": F.gen_fa(rng, max_states=3, pool="str"),
               "alpha": alpha}


def run_case(case, drv):
    res = CaseResult()
    st, ta = outcome(lambda: build(case["a"]))
    st2, tb = outcome(lambda: build(case["b"]))
    if st != "ok" or st2 != "ok":
        return res
    a, b = extract(ta), extract(tb)
    # the transducer built through add_* must be the transducer described (what the relation is defined on)
    for label, spec_, got_ in (("a", case["a"], a), ("b", case["b"], b)):
        res.evals += 1
        used = set(spec_["starts"]) | set(spec_["finals"]) | {x[0] for x in spec_["delta"]} | {x[2] for x in spec_["delta"]}
        if canon(spec_) != canon(got_) or sorted(used) != sorted(set(got_["states"])) \
                or sorted({x[1] for x in spec_["delta"] if x[1] is not None}) != sorted(getattr(ta if label == "a" else tb, "input_symbols")):
            res.violation("add_transition", "the transducer built through the API is not the one described",
                          detail={"spec": spec_, "built": got_})
            return res
    res.nontrivial = len(a["states"]) >= 2 and len(a["delta"]) >= 3
    words = words3(case.get("alpha", "ab"))
    rel_a = drv.call("fst.rel", T=a, words=words)
    rel_b = drv.call("fst.rel", T=b, words=words)
    if any(r is None for r in rel_a + rel_b):
        res.tag("oracle_fuel")
        return res
    # ---- translate ------------------------------------------------------------------------------
    model = drv.call("fst.translate", T=a, words=words)
    for w, want, mod in zip(words, rel_a, model):
        got = outcome(lambda w=w: [list(o) for o in capped(ta.translate(list(w)))], limit=3.0, retry=False)
        res.evals += 1
        res.corr += 1
        if got[0] != "ok":
            res.violation("translate", "raised / hung: %s" % (got,), detail={"word": w})
            break
        outs = got[1]
        if sorted({tuple(o) for o in outs}) != sorted({tuple(o) for o in want}):
            res.violation("translate", "set of outputs differs from the transduction relation",
                          detail={"word": w, "impl": outs[:6], "spec": want[:6]},
                          model_agrees=(mod is not None and sorted(mod) == sorted(outs)))
            break
        if mod is not None and sorted(mod) != sorted(outs):
            res.corr_break("translate", "multiset of yielded outputs differs from model",
                           detail={"word": w, "impl": outs, "model": mod})
            break
    # ---- union / concatenate / kleene_star -------------------------------------------------------
    def rel_of(table, w):
        return {tuple(o) for o in table[words.index(w)]}
    expect = {}
    expect["union"] = lambda w: rel_of(rel_a, w) | rel_of(rel_b, w)
    expect["concatenate"] = lambda w: {o1 + o2 for i in range(len(w) + 1) for o1 in rel_of(rel_a, w[:i])
                                       for o2 in rel_of(rel_b, w[i:])}
    star_ok = rel_of(rel_a, []) <= {()}

    def star(w, memo={}):
        key = tuple(w)
        if key in memo:
            return memo[key]
        out = {()} if not w else set()
        for i in range(1, len(w) + 1):
            for o1 in rel_of(rel_a, w[:i]):
                for o2 in star(w[i:]):
                    out.add(o1 + o2)
        memo[key] = out
        return out
    ops = [("union", "fst.union", lambda: ta.union(tb), True, expect["union"]),
           ("|", "fst.union", lambda: ta | tb, True, expect["union"]),
           ("concatenate", "fst.concatenate", lambda: ta.concatenate(tb), True, expect["concatenate"]),
           ("+", "fst.concatenate", lambda: ta + tb, True, expect["concatenate"])]
    if star_ok:
        memo = {}
        ops.append(("kleene_star", "fst.kleeneStar", ta.kleene_star, False, lambda w: star(w, memo)))
    else:
        res.tag("star_skipped_infinite")
    for opname, dop, f, binary, exp in ops:
        st, R = outcome(f)
        if st != "ok":
            res.violation(opname, "raised %s" % R)
            continue
        r = extract(R)
        M = drv.call(dop, T=a, **({"U": b} if binary else {}))
        res.corr += 1
        diff = canon(r) != canon(M)
        try:
            rr = drv.call("fst.rel", _timeout=20.0, T=r, words=words)
        except Exception:  # pylint: disable=broad-except
            # the operands' relations are finite (enumerated above); the result's is not, or is astronomically large
            res.violation(opname, "the relation of the result cannot be enumerated although the operands' relations are finite "
                          "(an epsilon cycle that writes output?)", detail={"result": r})
            continue
        ok = True
        for w, outs in zip(words, rr):
            res.evals += 1
            if outs is None:
                continue
            if {tuple(o) for o in outs} != exp(w):
                res.violation(opname, "relation of the result is not the %s of the operand relations" % opname,
                              detail={"word": w, "result": outs[:5], "spec": sorted(exp(w))[:5]}, model_agrees=not diff)
                ok = False
                break
        if diff and ok:
            res.corr_break(opname, "structure differs from model", detail={"impl": r, "model": M})
    # ---- to_fst ----------------------------------------------------------------------------------
    spec = case["fa"]
    spec["symvals"] = ["a", "b", "c"][:len(spec["symvals"])]
    st, fa = outcome(lambda: F.build(spec))
    if st == "ok":
        scodes, ycodes = F.Codes(spec["svals"]), F.Codes(["a", "b", "c"])
        A = F.extract(fa, scodes, ycodes)
        st, T = outcome(fa.to_fst)
        if st != "ok":
            res.violation("to_fst", "raised %s" % T)
        else:
            st, t = outcome(lambda: extract(T))
            if st == "ok":
                # structural tie with the model of to_fst (states compared through their codes)
                mt = drv.call("fst.ofFA", A=A, symNames=["a", "b", "c"])
                res.corr += 1
                tc = {"starts": [str(scodes.code(q)) for q in t["starts"]], "finals": [str(scodes.code(q)) for q in t["finals"]],
                      "delta": [[str(scodes.code(q)), a, str(scodes.code(r)), o] for q, a, r, o in t["delta"]]}
                if canon(tc) != canon(mt):
                    res.corr_break("to_fst", "structure differs from the model", detail={"impl": canon(tc), "model": canon(mt)})
            ws = words3()
            if st == "ok" and all(isinstance(s, str) for s in t["states"]):
                rr = drv.call("fst.rel", T=t, words=ws)
                mem = drv.call("fa.member", A=A, words=[[ "abc".index(c) for c in w] for w in ws])
                for w, outs, m in zip(ws, rr, mem):
                    res.evals += 1
                    if outs is None:
                        continue
                    want = {tuple(w)} if m else set()
                    if {tuple(o) for o in outs} != want:
                        res.violation("to_fst", "not the identity restricted to the automaton's language",
                                      detail={"word": w, "outputs": outs[:4], "accepted": m})
                        break
    return res
