"""C10 - CFG union / concatenation / closure / reversal / substitution build exactly that set."""
from pyformlang.cfg import Terminal
from .. import cfgdom as G
from ..core import CaseResult, outcome

ID = "C10"
RULE = ("random ordered pairs of context-free grammars (shared variable names, 25% the same object twice, empty and "
        "epsilon-only languages, variables already named like the library's fresh #SUBS#/#START...# symbols); union, "
        "concatenate, get_closure, get_positive_closure, reverse, substitute and the operators | + ~ are compared "
        "structurally with the Lean model (same variable numbering, since the model is fed the set-iteration order) "
        "and by bounded language comparison (all words of length <=4) computed from the verified membership oracle. "
        "Non-trivial: first grammar has >=2 productions, one with a body of length >=2.")
THEOREMS = ["Pfl.CFG.reverse_lang",
            "Pfl.CFG.substitute_lang",
            "Pfl.CFG.union_lang",
            "Pfl.CFG.concatenate_lang",
            "Pfl.CFG.closure_lang",
            "Pfl.CFG.posClosure_lang",
            "Pfl.CFG.cfgMem_iff",
            "Pfl.CFG.mem_langUpTo_iff",
            "Pfl.CFG.langUpTo_nodup"]
N = 4


def generate(rng, tier):
    while True:
        a = G.gen_cfg(rng, max_vars=3, max_prods=5)
        b = G.gen_cfg(rng, max_vars=3, max_prods=5)
        yield {"a": a, "b": b, "same": rng.random() < 0.25}


def star(words, n, positive):
    base = {tuple(w) for w in words if w}
    cur = {()}
    out = set() if positive else {()}
    if positive and any(not w for w in words):
        out.add(())
    frontier = {()}
    while frontier:
        nxt = set()
        for u in frontier:
            for v in base:
                w = u + v
                if len(w) <= n and w not in out:
                    out.add(w)
                    nxt.add(w)
        frontier = nxt
    return sorted(list(w) for w in out)


def canon_subs(g, sizes):
    """replace the index k of `name#SUBS#k` by the number of the operand block it belongs to
    (indices inside one block depend on set-iteration order)"""
    bounds = []
    acc = 0
    for sz in sizes:
        acc += sz
        bounds.append(acc)

    def ren(v):
        if "#SUBS#" not in v:
            return v
        base, _, k = v.rpartition("#SUBS#")
        if not k.isdigit():
            return v
        k = int(k)
        blk = next((i for i, b in enumerate(bounds) if k < b), len(bounds))
        return "%s@%d" % (base, blk)
    rs = lambda k, x: [k, ren(x)] if k == "v" else [k, x]  # noqa: E731
    return {"vars": [ren(v) for v in g["vars"]], "ters": g["ters"],
            "start": ren(g["start"]) if g["start"] is not None else None,
            "prods": [[ren(h), [rs(k, x) for k, x in b]] for h, b in g["prods"]]}


def run_case(case, drv):
    res = CaseResult()
    st, ga = outcome(lambda: G.build(case["a"]))
    st2, gb = outcome(lambda: G.build(case["b"]))
    if st != "ok" or st2 != "ok":
        res.tag("build_fail")
        return res
    if case.get("same"):
        gb = ga
        res.tag("same_object")
    a, b = G.extract(ga), G.extract(gb)
    res.nontrivial = G.is_nontrivial(case["a"])
    ters = sorted(set(a["ters"]) | set(b["ters"]))
    if len(ters) > 2:
        n = 3
    else:
        n = N
    la = drv.call("cfg.langUpTo", G={**a, "ters": ters}, n=n)
    lb = drv.call("cfg.langUpTo", G={**b, "ters": ters}, n=n)
    if la is None or lb is None:
        res.tag("oracle_fuel")
        return res
    sa, sb = {tuple(w) for w in la}, {tuple(w) for w in lb}
    expect = {
        "union": sorted(list(w) for w in sa | sb),
        "concatenate": sorted({u + v for u in sa for v in sb if len(u + v) <= n}),
        "closure": star(la, n, False),
        "posClosure": star(la, n, True),
        "reverse": sorted(list(reversed(w)) for w in la),
    }
    expect["concatenate"] = [list(w) for w in expect["concatenate"]]
    ops = [("union", "union", lambda: ga.union(gb), True), ("|", "union", lambda: ga | gb, True),
           ("concatenate", "concatenate", lambda: ga.concatenate(gb), True), ("+", "concatenate", lambda: ga + gb, True),
           ("get_closure", "closure", ga.get_closure, False),
           ("get_positive_closure", "posClosure", ga.get_positive_closure, False),
           ("reverse", "reverse", ga.reverse, False), ("~", "reverse", lambda: ~ga, False)]
    for opname, kind, f, binary in ops:
        st, R = outcome(f, limit=5.0)
        if st != "ok":
            res.violation(opname, "raised / hung: %s" % (R if st == "exc" else st))
            continue
        st, r = outcome(lambda R=R: G.extract(R))
        if st != "ok":
            res.violation(opname, "result has non-string symbol values")
            continue
        kw = {"H": b} if binary else {}
        M = drv.call("cfg.transform", G=a, kind=kind, **kw)
        res.corr += 1
        if kind != "reverse":
            sizes = [2 if kind == "posClosure" else 1, len(set(a["vars"]))] + ([len(set(b["vars"]))] if binary else [])
            diff = G.same(canon_subs(r, sizes), canon_subs(M, sizes), ("start", "prods"))
        else:
            diff = G.same(r, M, ("start", "prods"))
        rl = drv.call("cfg.langUpTo", G={**r, "ters": sorted(set(r["ters"]) | set(ters))}, n=n)
        res.evals += 1
        ok = True
        if rl is not None and sorted(rl) != sorted(expect[kind]):
            res.violation(opname, "language of the result is not the %s of the operand languages" % kind,
                          detail={"missing": [w for w in expect[kind] if w not in rl][:3],
                                  "extra": [w for w in rl if w not in expect[kind]][:3]}, model_agrees=not diff)
            ok = False
        if diff and ok:
            res.corr_break(opname, "structure differs from model: %s" % diff, detail={"impl": r, "model": M})
    # substitute: replace terminal t of `a` by grammar `b`
    if a["ters"]:
        t = sorted(a["ters"])[0]
        st, R = outcome(lambda: ga.substitute({Terminal(t): gb}), limit=5.0)
        if st != "ok":
            res.violation("substitute", "raised / hung: %s" % (R if st == "exc" else st))
        else:
            st, r = outcome(lambda: G.extract(R))
            if st == "ok":
                # expected: words of a with each occurrence of t replaced by a word of b (bounded)
                bigger = drv.call("cfg.langUpTo", G={**a, "ters": ters}, n=n)
                want = set()
                for w in bigger:
                    parts = [[tuple(x) for x in lb] if s == t else [(s,)] for s in w]
                    combos = [()]
                    for alt in parts:
                        combos = [c + x for c in combos for x in alt if len(c + x) <= n]
                    want.update(combos)
                rl = drv.call("cfg.langUpTo", G={**r, "ters": sorted(set(r["ters"]) | set(ters))}, n=n)
                res.evals += 1
                if rl is not None:
                    got = {tuple(w) for w in rl}
                    # words of the operand grammar `a` longer than n could also contribute after
                    # substitution by the empty word: only compare when b does not generate epsilon
                    if () not in sb and got != want:
                        res.violation("substitute", "language is not the substitution of the operand languages",
                                      detail={"missing": sorted(want - got)[:3], "extra": sorted(got - want)[:3]})
    return res
