"""C13 - CFG <-> PDA and acceptance-mode conversions preserve the language."""
from .. import cfgdom as G
from .. import pdadom as P
from ..core import CaseResult, outcome

ID = "C13"
RULE = ("random PDAs (1-3 states, 1-2 input symbols, 1-3 stack symbols, 1-7 transitions incl. epsilon moves, pushes of "
        "0-3 symbols, reserved state/stack names in 15% of cases) and random CFGs (as in C08); to_final_state, "
        "to_empty_stack, to_cfg and CFG.to_pda are compared structurally with the Lean model and, on every word of "
        "length <=3/4, through the exact PDA-acceptance oracle (pop-relation saturation) and the CFG membership "
        "oracle. Non-trivial: PDA with >=3 transitions one of which pushes >=2 symbols.")
LEVEL = "proof"
THEOREMS = ["Pfl.PDA.accEmpty_iff",
            "Pfl.PDA.accFinal_iff",
            "Pfl.PDA.nextFree_fresh",
            "Pfl.PDA.toFinalState_lang",
            "Pfl.PDA.toEmptyStack_lang",
            "Pfl.PDA.ofCFG_lang",
            "Pfl.PDA.toCFG_lang",
            "Pfl.CFG.cfgMem_iff"]


def generate(rng, tier):
    while True:
        g = G.gen_cfg(rng, max_vars=3, max_prods=6)
        if rng.random() < 0.15:
            # a terminal spelled like a variable: legal, and to_pda must keep the two apart
            heads = sorted({h for h, _ in g["prods"]})
            ts = sorted({x[1] for _, b in g["prods"] for x in b if x[0] == "t"})
            if heads and ts:
                old_t, new_t = rng.choice(ts), rng.choice(heads)
                g["prods"] = [[h, [["t", new_t] if x == ["t", old_t] else x for x in b]] for h, b in g["prods"]]
                g["ters"] = [new_t if t == old_t else t for t in g["ters"]]
        yield {"p": P.gen_pda(rng), "g": g}


def decode_cfg(pda, cfg):
    """rename the running-counter variables of to_cfg() by the triple they stand for"""
    conv = getattr(pda, "_cfg_variable_converter", None)
    if conv is None:
        return None
    try:
        inv_s = {i: s for s, i in conv._inverse_states_d.items()}          # pylint: disable=protected-access
        inv_x = {i: s for s, i in conv._inverse_stack_symbol_d.items()}   # pylint: disable=protected-access
        names = {}
        for i, plane in enumerate(conv._conversions):                       # pylint: disable=protected-access
            for j, row in enumerate(plane):
                for k, (_, var) in enumerate(row):
                    if var is not None:
                        names[var.value] = "[%s|%s|%s]" % (inv_s[i].value, inv_x[j].value, inv_s[k].value)
    except Exception:  # pylint: disable=broad-except
        return None
    ren = lambda v: names.get(v, v if isinstance(v, str) else "?%r" % (v,))  # noqa: E731
    return {"vars": [ren(v.value) for v in cfg.variables], "ters": [t.value for t in cfg.terminals],
            "start": ren(cfg.start_symbol.value),
            "prods": [[ren(p.head.value), [["v", ren(x.value)] if G.xsym(x)[0] == "v" else ["t", x.value]
                                           for x in p.body]] for p in cfg.productions]}


def run_case(case, drv):
    res = CaseResult()
    spec = case["p"]
    st, pda = outcome(lambda: P.build(spec))
    if st != "ok":
        res.tag("build_fail")
        return res
    p = P.extract(pda)
    res.nontrivial = P.is_nontrivial(spec)
    inputs = sorted(set(p["inputs"]))
    words = G.words_upto(inputs, 4 if len(inputs) <= 1 else 3)
    acc_e = drv.call("pda.acc", P=p, mode="empty", words=words)
    acc_f = drv.call("pda.acc", P=p, mode="final", words=words)
    scope = []
    if any(s.startswith("#") for s in p["states"] + p["stack"]):
        res.tag("reserved_names")

    # ---- to_final_state / to_empty_stack ---------------------------------------------------
    for pyname, op, mode_res, want in (("to_final_state", "pda.toFinalState", "final", acc_e),
                                        ("to_empty_stack", "pda.toEmptyStack", "empty", acc_f)):
        st, R = outcome(getattr(pda, pyname))
        if st != "ok":
            res.violation(pyname, "raised %s" % R, scope=scope)
            continue
        r = P.extract(R)
        M = drv.call(op, P=p)
        res.corr += 1
        diff = P.same(r, M)
        got = drv.call("pda.acc", P=r, mode=mode_res, words=words)
        ok = True
        for w, a, b in zip(words, got, want):
            res.evals += 1
            if a is not None and b is not None and a != b:
                res.violation(pyname, "acceptance changed", detail={"word": w, "result_accepts": a, "source_accepts": b},
                              scope=scope, model_agrees=not diff)
                ok = False
                break
        if diff and ok:
            res.corr_break(pyname, "structure differs from model: %s" % diff, detail={"impl": r, "model": M})
    # ---- to_cfg ------------------------------------------------------------------------------
    st, C = outcome(pda.to_cfg, limit=8.0)
    if st != "ok":
        res.violation("to_cfg", "raised / hung %s" % (R if st == "exc" else st), scope=scope)
    else:
        cg = decode_cfg(pda, C)
        M = drv.call("pda.toCFG", P=p)
        diff = None
        if cg is not None and M is not None:
            res.corr += 1
            diff = G.same(cg, M, ("start", "prods"))
        # language through the membership oracle (variable values may be ints: stringify)
        try:
            raw = {"vars": [str(v.value) for v in C.variables], "ters": [t.value for t in C.terminals],
                   "start": str(C.start_symbol.value),
                   "prods": [[str(q.head.value), [["v", str(x.value)] if G.xsym(x)[0] == "v" else ["t", x.value]
                                                  for x in q.body]] for q in C.productions]}
            mem = drv.call("cfg.member", G=raw, words=words)
        except Exception:  # pylint: disable=broad-except
            mem = None
        ok = True
        if mem is not None:
            for w, a, b in zip(words, mem, acc_e):
                res.evals += 1
                if a is not None and b is not None and a != b:
                    res.violation("to_cfg", "grammar and PDA (empty stack) disagree",
                                  detail={"word": w, "cfg": a, "pda": b}, scope=scope, model_agrees=(diff == []))
                    ok = False
                    break
        if diff and ok:
            res.corr_break("to_cfg", "structure differs from model: %s" % diff, detail={"impl": cg, "model": M})
    # ---- CFG.to_pda ----------------------------------------------------------------------------
    gspec = case["g"]
    st, cfg = outcome(lambda: G.build(gspec))
    if st == "ok":
        g = G.extract(cfg)
        gscope = []
        if any(v.startswith("#TERM#") for v in g["vars"]):
            gscope.append("term_name_clash")
        st, Q = outcome(cfg.to_pda)
        if st != "ok":
            res.violation("to_pda", "raised %s" % Q, scope=gscope)
        else:
            q = P.extract(Q)
            M = drv.call("pda.ofCFG", G=g)
            res.corr += 1
            diff = P.same(q, M)
            ters = sorted(set(g["ters"]))
            gw = G.words_upto(ters, 3)
            mem = drv.call("cfg.member", G=g, words=gw)
            acc = drv.call("pda.acc", P=q, mode="empty", words=gw)
            ok = True
            for w, a, b in zip(gw, acc, mem):
                res.evals += 1
                if a is not None and b is not None and a != b:
                    res.violation("to_pda", "PDA (empty stack) and grammar disagree",
                                  detail={"word": w, "pda": a, "cfg": b}, scope=gscope, model_agrees=not diff)
                    ok = False
                    break
            if diff and ok:
                res.corr_break("to_pda", "structure differs from model: %s" % diff, detail={"impl": q, "model": M})
    return res
