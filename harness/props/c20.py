"""C20 - export/import round trips and recursive automata reproduce the same machine."""
from pyformlang.finite_automaton import EpsilonNFA
from pyformlang.pda import PDA
from pyformlang.fst import FST
from pyformlang.cfg import CFG, Variable
from pyformlang.rsa import RecursiveAutomaton
from pyformlang.regular_expression import Regex
from .. import fa as F
from .. import cfgdom as G
from .. import pdadom as P
from .. import rxdom as X
from . import c16
from ..core import CaseResult, outcome

ID = "C20"
LEVEL = "other"
RULE = ("random automata / PDAs / FSTs with JSON-representable state and symbol values (ints and strings, several start "
        "states, epsilon transitions, parallel edges, multi-symbol pushes and outputs, no epsilon spellings and no label "
        "separators) round-tripped through to_networkx / from_networkx and compared structurally; random CFGs over "
        "whitespace-free tokens (lower-case variables, capitalised terminals, epsilon productions) round-tripped through "
        "to_text / from_text and compared by production sets and by the verified membership oracle; random EBNF texts "
        "whose boxes are compared, by the verified equivalence oracle, with the union of the alternatives of each "
        "head. Non-trivial: machine with >=2 states and >=2 transitions / grammar with >=2 productions.")
EXPLANATION = 'Round trips are decided structurally (canonical form of the re-imported object equals that of the original) and, for grammars and recursive automata, by the verified membership / equivalence oracles; the networkx graph container and the json module are exercised, not modelled. No Lean theorem about the label codecs is claimed in this round.'
THEOREMS = ["Pfl.CFG.cfgMem_iff",
            "Pfl.Rx.thompson_lang",
            "Pfl.ENFA.langDiff_none_iff"]
TOK_VARS = ["S", "A", "B", "x", "y", "aVar", "Zed"]
TOK_TERS = ["a", "b", "c", "X", "Big", "t1"]


def generate(rng, tier):
    while True:
        fa = F.gen_fa(rng, max_states=4, pool=rng.choice(["int", "str"]))
        pda = P.gen_pda(rng, adversarial=False)
        fst = c16.gen_fst(rng)
        # grammar over tokens that need VAR:/TER: markers
        vs = rng.sample(TOK_VARS, rng.randint(1, 3))
        ts = rng.sample(TOK_TERS, rng.randint(1, 3))
        prods = []
        for _ in range(rng.randint(1, 6)):
            body = []
            for _ in range(rng.choice([0, 1, 2, 2, 3])):
                body.append(["v", rng.choice(vs)] if rng.random() < 0.5 else ["t", rng.choice(ts)])
            prods.append([rng.choice(vs), body])
        g = {"vars": [], "ters": [], "start": vs[0], "prods": prods, "as_list": False}
        # EBNF
        heads = ["S", "A", "B"][:rng.randint(1, 3)]
        lines = []
        for _ in range(rng.randint(1, 5)):
            ast = X.gen_ast(rng, depth=2, escaped=False)
            # mention non-terminals as symbols
            lines.append([rng.choice(heads), X.render(ast, rng).replace("x1", rng.choice(heads))])
        if "S" not in [h for h, _ in lines]:
            lines.append(["S", "a"])
        yield {"fa": fa, "pda": pda, "fst": fst, "g": g, "ebnf": lines}


def run_case(case, drv):
    res = CaseResult()
    # ---- finite automaton ------------------------------------------------------------------------
    spec = case["fa"]
    st, fa = outcome(lambda: F.build(spec))
    if st == "ok":
        res.nontrivial = F.is_nontrivial(spec)
        sc, yc = F.Codes(spec["svals"]), F.Codes(spec["symvals"])
        a = F.extract(fa, sc, yc)
        got = outcome(lambda: F.extract(EpsilonNFA.from_networkx(fa.to_networkx()), sc, yc))
        res.evals += 1
        if got[0] != "ok":
            res.violation("fa.networkx", "round trip raised %s" % got[1])
        else:
            diff = F.same(a, got[1], ("starts", "finals", "delta"))
            mentioned = set(a["starts"]) | set(a["finals"]) | {t[0] for t in a["delta"]} | {t[2] for t in a["delta"]}
            lost = sorted(set(a["states"]) - set(got[1]["states"]))
            if diff:
                res.violation("fa.networkx", "round trip changed %s" % diff, detail={"before": a, "after": got[1]})
            elif lost:
                res.violation("fa.networkx", "round trip lost states", detail={"lost": lost},
                              scope=(["isolated_states"] if not (set(lost) & mentioned) else []))
    # ---- PDA -------------------------------------------------------------------------------------
    st, pda = outcome(lambda: P.build(case["pda"]))
    if st == "ok":
        p = P.extract(pda)
        got = outcome(lambda: P.extract(PDA.from_networkx(pda.to_networkx())))
        res.evals += 1
        if got[0] != "ok":
            res.violation("pda.networkx", "round trip raised %s" % got[1])
        else:
            diff = P.same(p, got[1], ("start", "startStack", "finals", "delta"))
            if diff:
                res.violation("pda.networkx", "round trip changed %s" % diff, detail={"before": p, "after": got[1]})
    # ---- FST -------------------------------------------------------------------------------------
    st, t = outcome(lambda: c16.build(case["fst"]))
    if st == "ok":
        a = c16.extract(t)
        got = outcome(lambda: c16.extract(FST.from_networkx(t.to_networkx())))
        res.evals += 1
        if got[0] != "ok":
            res.violation("fst.networkx", "round trip raised %s" % got[1])
        elif c16.canon(a) != c16.canon(got[1]):
            res.violation("fst.networkx", "round trip changed the transducer", detail={"before": a, "after": got[1]})
    # ---- CFG text --------------------------------------------------------------------------------
    st, cfg = outcome(lambda: G.build(case["g"]))
    if st == "ok":
        g = G.extract(cfg)
        got = outcome(lambda: G.extract(CFG.from_text(cfg.to_text(), Variable(g["start"]))))
        res.evals += 1
        if got[0] != "ok":
            res.violation("cfg.text", "round trip raised %s" % got[1], detail={"text": outcome(cfg.to_text)})
        else:
            r = got[1]
            if G.same(g, r, ("start", "prods")):
                ters = sorted(set(g["ters"]))[:3]
                words = G.words_upto(ters, 3)
                m1 = drv.call("cfg.member", G=g, words=words)
                m2 = drv.call("cfg.member", G=r, words=words)
                if m1 != m2:
                    res.violation("cfg.text", "round trip changes the language",
                                  detail={"text": cfg.to_text(), "before": g["prods"], "after": r["prods"]})
                else:
                    res.violation("cfg.text", "round trip changes the productions (same words up to length 3)",
                                  detail={"text": cfg.to_text(), "before": g["prods"], "after": r["prods"]})
    # ---- recursive automata ----------------------------------------------------------------------
    lines = case["ebnf"]
    text = "\n".join("%s -> %s" % (h, b) for h, b in lines)
    got = outcome(lambda: RecursiveAutomaton.from_ebnf(text), limit=8.0)
    res.evals += 1
    if got[0] == "ok":
        rsa = got[1]
        heads = sorted({h for h, _ in lines})
        if sorted(str(s.value) for s in rsa.nonterminals) != heads:
            res.violation("from_ebnf", "boxes do not correspond to the heads",
                          detail={"heads": heads, "boxes": sorted(str(s.value) for s in rsa.nonterminals)})
        for h in heads:
            bodies = [b for hh, b in lines if hh == h]
            trees = [outcome(lambda b=b: X.tree_of(Regex(b))) for b in bodies]
            if any(t[0] != "ok" for t in trees):
                continue
            tree = trees[0][1]
            for t in trees[1:]:
                tree = ["alt", tree, t[1]]
            box = rsa.get_box_by_nonterminal(h)
            if box is None:
                continue
            names = sorted({str(s.value) for s in box.dfa.symbols})
            bx = F.extract(box.dfa, F.Codes([]), F.Codes(names))
            e = drv.call("rx.faEquiv", tree=tree, A=F.renumber(bx), symNames=names)
            res.evals += 1
            if not e["equiv"]:
                res.violation("from_ebnf", "box does not accept the alternatives of its head",
                              detail={"head": h, "bodies": bodies, "word": e["word"]})
    elif got[0] == "exc" and got[1] != "MisformedRegexError":
        res.violation("from_ebnf", "raised %s" % got[1], detail={"text": text})
    # from_regex
    b0 = lines[0][1]
    got = outcome(lambda: (X.tree_of(Regex(b0)), RecursiveAutomaton.from_regex(Regex(b0), "S")), limit=8.0)
    if got[0] == "ok":
        tree, rsa = got[1]
        box = rsa.get_box_by_nonterminal("S")
        names = sorted({str(s.value) for s in box.dfa.symbols})
        bx = F.extract(box.dfa, F.Codes([]), F.Codes(names))
        e = drv.call("rx.faEquiv", tree=tree, A=F.renumber(bx), symNames=names)
        res.evals += 1
        if not e["equiv"] or rsa.get_number_boxes() != 1:
            res.violation("from_regex", "the single box does not accept the regex", detail={"regex": b0})
    return res
