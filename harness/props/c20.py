"""C20 - export/import round trips and recursive automata reproduce the same machine."""
from pyformlang.finite_automaton import EpsilonNFA
from pyformlang.pda import PDA
from pyformlang.fst import FST
from pyformlang.cfg import CFG, Variable
from pyformlang.rsa import RecursiveAutomaton
from pyformlang.regular_expression import Regex
from .. import fa as F
from .. import cfgdom as G
from .. import pdadom as P
from .. import rxdom as X
from . import c16
from .. import c20nx
from .. import c20txt
from ..core import CaseResult, outcome, case_key

ID = "C20"
LEVEL = "proof"
RULE = ("random automata / PDAs / FSTs with JSON-representable state and symbol values (ints and strings, several start "
        "states, epsilon transitions, parallel edges, multi-symbol pushes and outputs, no epsilon spellings and no label "
        "separators) round-tripped through to_networkx / from_networkx and compared structurally; random CFGs over "
        "whitespace-free tokens (lower-case variables, capitalised terminals, epsilon productions) round-tripped through "
        "to_text / from_text and compared by production sets and by the verified membership oracle; random EBNF texts (several lines per head, empty right-hand sides) "
        "whose boxes are compared, by the verified equivalence oracle, with the union of the alternatives of each "
        "head. A second stream per case: machines over ints and strings whose state names coincide with the decoration "
        "nodes of the export (starting_q0, INITIAL_STACK_HIDDEN), symbols such as 0, '0', 'a b', '[', non-ASCII letters: "
        "exported graph, round trip and the import of a perturbed graph against the Lean model of networkx; grammars over "
        "plain tokens (quotes, '-', '>', non-ASCII capitals, zero-width space, marker look-alikes) and adversarial ones: "
        "splitlines / strip / split on texts full of unusual blanks and line boundaries, lines written, productions read "
        "from exported and edited texts against the character-level Lean model. Non-trivial: machine with >=2 states and >=2 transitions / grammar with >=2 productions.")
EXPLANATION = 'to_networkx / from_networkx (three classes, over a model of the graph container, decoration-node name clashes included) and to_text / from_text (character level: splitlines / strip / split with Python\'s blank and line-boundary sets, VAR:/TER: markers) are modelled in Lean; FA.roundtrip, PDA.roundtrip, FST.roundtrip and fromText_toText prove that the import of the export gives back the same states, markings, transitions / the same productions for every machine / grammar in the quantifier of the property; box_lang proves that a recursive-automaton box accepts the denotation of its body. Exported graphs and texts, the import of exported and of edited graphs and texts, and the string primitives are compared with the models on every case; json.dumps / json.loads and str.isupper are parameters of the theorems (assumed inverse / true on ASCII capitals) handed to the driver as tables.'
THEOREMS = ["Pfl.Nx.FA.roundtrip",
            "Pfl.Nx.PDA.roundtrip",
            "Pfl.Nx.FST.roundtrip",
            "Pfl.Nx.PDA.roundtrip_hidden_name",
            "Pfl.Nx.PDA.import_old_format",
            "Pfl.Nx.PDA.import_old_format_needs_name",
            "Pfl.TextCodec.fromText_toText",
            "Pfl.TextCodec.fromText_toText_needs_not_special",
            "Pfl.Ebnf.bodies_lines",
            "Pfl.Ebnf.group_spec",
            "Pfl.Ebnf.grouped_parse",
            "Pfl.Ebnf.fromEbnf_box_lang",
            "Pfl.Ebnf.epsilon_token",
            "Pfl.Rx.box_lang",
            "Pfl.LabelCodec.readPdaLabel_pdaLabel",
            "Pfl.LabelCodec.readFstLabel_fstLabel",
            "Pfl.LabelCodec.readPdaLabel_pdaLabel_clear",
            "Pfl.LabelCodec.readFstLabel_fstLabel_clear",
            "Pfl.Codec.read_varToText",
            "Pfl.Codec.read_terToText",
            "Pfl.Codec.read_capitalised_unmarked",
            "Pfl.CFG.cfgMem_iff",
            "Pfl.Rx.thompson_lang",
            "Pfl.ENFA.langDiff_none_iff"]
TOK_VARS = ["S", "A", "B", "x", "y", "aVar", "Zed"]
TOK_TERS = ["a", "b", "c", "X", "Big", "t1"]


TOK_PIECES = ['"', '"VAR:', '"TER:', "VAR", "TER", ":", "a", "b", "X", "Y", "z", "0", "#", "$", "epsilon", "_", "-", ".",
              "(", "Q", "q"]
EPS_SPELLINGS = ["epsilon", "$", "\u03b5", "\u03f5", "\u0404"]


def gen_token(rng):
    """whitespace-free ASCII token without the line syntax `|` and `->`"""
    while True:
        t = "".join(rng.choice(TOK_PIECES) for _ in range(rng.randint(1, 4)))
        if "->" not in t and "|" not in t:
            return t


def is_special_token(t):
    return len(t) > 5 and t[:5] in ('"VAR:', '"TER:') and t[-1] == '"'


def read_token(tok):
    """how CFG.from_text classifies one body component"""
    g = CFG.from_text("S -> " + tok)
    prods = list(g.productions)
    if len(prods) != 1:
        return ["?", str(prods)]
    body = prods[0].body
    if not body:
        return ["e", ""]
    if len(body) != 1:
        return ["?", str(body)]
    return ["v" if isinstance(body[0], Variable) else "t", body[0].value]


def codec_tie(toks, drv, res):
    from pyformlang.cfg import Terminal
    model = drv.call("cfg.codec", toks=toks)
    for tok, m in zip(toks, model):
        res.corr += 3
        vt, tt = outcome(lambda: Variable(tok).to_text()), outcome(lambda: Terminal(tok).to_text())
        rd = outcome(lambda: read_token(tok))
        if vt != ("ok", m["varText"]) or tt != ("ok", m["terText"]) or rd != ("ok", m["read"]):
            broke = True
        else:
            broke = False
        plain = not is_special_token(tok)
        # the property itself, on the implementation: what to_text writes is read back as the same symbol
        bad = None
        if plain:
            res.evals += 2
            back_v = outcome(lambda: read_token(Variable(tok).to_text()))
            if back_v != ("ok", ["v", tok]):
                bad = ("variable", back_v)
            if tok not in EPS_SPELLINGS:
                back_t = outcome(lambda: read_token(Terminal(tok).to_text()))
                if back_t != ("ok", ["t", tok]):
                    bad = ("terminal", back_t)
            res.tag("codec_plain")
        else:
            res.tag("codec_special")
        if bad is not None:
            res.violation("cfg.text", "a %s token is not read back as itself" % bad[0],
                          detail={"token": tok, "read_back": bad[1]}, model_agrees=not broke)
        elif broke:
            res.corr_break("cfg.text", "token codec differs from the model",
                           detail={"token": tok, "impl": [vt, tt, rd], "model": m})


SPLIT_ALPHA = [" ", " ", "-", ">", "/", "a", '"', "[", "]", ","]


def label_tie(pda, fst, sseed, drv, res):
    """edge-label codec of to_networkx / from_networkx against Pfl/Model/LabelCodec.lean"""
    import json
    import random
    rng = random.Random(sseed)
    # str.split itself, on texts full of near-separators
    for sep in (" -> ", " / "):
        texts = ["".join(rng.choice(SPLIT_ALPHA) for _ in range(rng.randint(0, 9))) for _ in range(6)]
        texts += [rng.choice(texts) + sep + rng.choice(texts) for _ in range(3)]
        m = drv.call("lab.split", sep=sep, texts=texts)
        res.corr += len(texts)
        for t, mm in zip(texts, m):
            if t.split(sep) != mm:
                res.corr_break("networkx.label", "str.split differs from the model", detail={"text": t, "sep": sep,
                                                                                             "python": t.split(sep), "model": mm})
                return
    if pda is not None:
        g = pda.to_networkx()
        labels = sorted(d["label"] for _, _, d in g.edges(data=True) if "label" in d)
        parts = []
        for key, value in pda._transition_function:  # pylint: disable=protected-access
            s_from, a, x = key
            _, push = value
            parts.append([json.dumps(a.value), json.dumps(x.value), json.dumps([y.value for y in push])])
        m = drv.call("lab.pda", parts=parts)
        res.corr += len(parts)
        if sorted(e["label"] for e in m) != labels:
            res.corr_break("pda.networkx", "edge labels differ from the model",
                           detail={"impl": labels, "model": sorted(e["label"] for e in m)})
        for pt, e in zip(parts, m):
            if e["read"] != pt:
                res.tag("label_not_read_back")
    if fst is not None:
        g = fst.to_networkx()
        labels = sorted(d["label"] for _, _, d in g.edges(data=True) if "label" in d)
        parts = []
        for (s_from, a), outs in fst._delta.items():  # pylint: disable=protected-access
            for s_to, out in outs:
                parts.append([json.dumps(a), json.dumps(out)])
        m = drv.call("lab.fst", parts=parts)
        res.corr += len(parts)
        if sorted(e["label"] for e in m) != labels:
            res.corr_break("fst.networkx", "edge labels differ from the model",
                           detail={"impl": labels, "model": sorted(e["label"] for e in m)})
    res.tag("label_tie")


def generate(rng, tier):
    while True:
        fa = F.gen_fa(rng, max_states=4, pool=rng.choice(["int", "str"]))
        pda = P.gen_pda(rng, adversarial=False)
        fst = c16.gen_fst(rng)
        # grammar over tokens that need VAR:/TER: markers
        vs = rng.sample(TOK_VARS, rng.randint(1, 3))
        ts = rng.sample(TOK_TERS, rng.randint(1, 3))
        prods = []
        for _ in range(rng.randint(1, 6)):
            body = []
            for _ in range(rng.choice([0, 1, 2, 2, 3])):
                body.append(["v", rng.choice(vs)] if rng.random() < 0.5 else ["t", rng.choice(ts)])
            prods.append([rng.choice(vs), body])
        g = {"vars": [], "ters": [], "start": vs[0], "prods": prods, "as_list": False}
        # EBNF
        heads = ["S", "A", "B"][:rng.randint(1, 3)]
        lines = []
        for _ in range(rng.randint(1, 5)):
            ast = X.gen_ast(rng, depth=2, escaped=False)
            # mention non-terminals as symbols
            body = X.render(ast, rng).replace("x1", rng.choice(heads))
            if rng.random() < 0.15:
                body = rng.choice(["", "", " ", "$"])       # an empty right-hand side is the empty word
            lines.append([rng.choice(heads), body])
        if "S" not in [h for h, _ in lines]:
            lines.append(["S", "a"])
        if rng.random() < 0.25:
            # two heads whose right-hand sides differ only in their blanks: `ab` is one symbol, `a b` two
            cand = [(h, b) for h, b in lines if "ab" in b]
            h, b = rng.choice(cand) if cand else ("S", rng.choice(["ab | c", "c ab", "(ab)* c", "abc"]))
            if not cand:
                lines.append([h, b])
            other = rng.choice([x for x in ["S", "A", "B"] if x != h])
            lines.insert(rng.randrange(len(lines) + 1), [other, b.replace("abc", "a b c").replace("ab", "a b")])
        toks = [gen_token(rng) for _ in range(4)]
        yield {"fa": fa, "pda": pda, "fst": fst, "g": g, "ebnf": lines, "toks": toks, "nx": c20nx.gen(rng), "txt": c20txt.gen(rng)}


EBNF_BLANKS = [" ", "  ", "\t", "\xa0", "\u2003"]
EBNF_BREAKS = ["\n", "\r\n", "\r", "\x0b", "\x0c", "\x85", "\u2028", "\n\n", "\n  \n", "\nno arrow here\n"]


def ebnf_text_tie(text, case, drv, res):
    """text side of from_ebnf against Pfl/Model/Ebnf.lean: the texts handed to Regex (one per head, in dict
    order, then the start body once more) are recorded by wrapping the Regex name of the rsa module; the text is
    also edited (other line boundaries and blanks, blank lines, lines without arrow, a second arrow)"""
    import random
    from pyformlang.rsa import recursive_automaton as RA
    r = random.Random(int(case_key(case), 16))
    t = text
    if r.random() < 0.6:
        t = "".join((r.choice(EBNF_BREAKS) if ch == "\n" and r.random() < 0.6 else
                     r.choice(EBNF_BLANKS) if ch == " " and r.random() < 0.2 else ch) for ch in t)
    if r.random() < 0.1:
        t = t.replace("->", "-> ->", 1)
    if r.random() < 0.2:
        t = r.choice(["", " ", "\n"]) + t + r.choice(["", "\n", " \n "])
    model = drv.call("txt.ebnf", texts=[t])[0]
    seen = []
    real = RA.Regex

    class Recording(real):          # pylint: disable=too-few-public-methods
        def __init__(self, regex, *a, **k):
            seen.append(regex)
            super().__init__(regex, *a, **k)
    RA.Regex = Recording
    try:
        got = outcome(lambda: RecursiveAutomaton.from_ebnf(t), limit=8.0)
    finally:
        RA.Regex = real
    res.corr += 1
    if got[0] == "timeout":
        return
    if got[0] == "exc" and got[1] == "ValueError":
        if model is not None:
            res.corr_break("from_ebnf", "ValueError although the model reads the text", detail={"text": t, "model": model})
        return
    if model is None:
        res.corr_break("from_ebnf", "the model raises (a line with two arrows), the implementation does not",
                       detail={"text": t, "impl": got[0]})
        return
    want = [b for _, b in model]
    # the bodies are handed to Regex in dict order; a misformed body stops the loop there
    if seen[:len(want)] != want[:len(seen)] or (got[0] == "ok" and seen[:-1] != want):
        res.corr_break("from_ebnf", "texts handed to Regex differ from the model", detail={"text": t, "impl": seen, "model": model})
        return
    if got[0] == "ok":
        heads = sorted(str(s.value) for s in got[1].nonterminals)
        if heads != sorted(h for h, _ in model):
            res.corr_break("from_ebnf", "heads differ from the model", detail={"text": t, "impl": heads, "model": model})
    res.tag("ebnf_text_tie")


def run_case(case, drv):
    res = CaseResult()
    # ---- finite automaton ------------------------------------------------------------------------
    spec = case["fa"]
    st, fa = outcome(lambda: F.build(spec))
    if st == "ok":
        res.nontrivial = F.is_nontrivial(spec)
        sc, yc = F.Codes(spec["svals"]), F.Codes(spec["symvals"])
        a = F.extract(fa, sc, yc)
        got = outcome(lambda: F.extract(EpsilonNFA.from_networkx(fa.to_networkx()), sc, yc))
        res.evals += 1
        if got[0] != "ok":
            res.violation("fa.networkx", "round trip raised %s" % got[1])
        else:
            diff = F.same(a, got[1], ("starts", "finals", "delta"))
            mentioned = set(a["starts"]) | set(a["finals"]) | {t[0] for t in a["delta"]} | {t[2] for t in a["delta"]}
            lost = sorted(set(a["states"]) - set(got[1]["states"]))
            if diff:
                res.violation("fa.networkx", "round trip changed %s" % diff, detail={"before": a, "after": got[1]})
            elif lost:
                res.violation("fa.networkx", "round trip lost states", detail={"lost": lost},
                              scope=(["isolated_states"] if not (set(lost) & mentioned) else []))
    # ---- PDA -------------------------------------------------------------------------------------
    st, pda = outcome(lambda: P.build(case["pda"]))
    st_pda = st
    if st == "ok":
        p = P.extract(pda)
        got = outcome(lambda: P.extract(PDA.from_networkx(pda.to_networkx())))
        res.evals += 1
        if got[0] != "ok":
            res.violation("pda.networkx", "round trip raised %s" % got[1])
        else:
            diff = P.same(p, got[1], ("start", "startStack", "finals", "delta"))
            if diff:
                res.violation("pda.networkx", "round trip changed %s" % diff, detail={"before": p, "after": got[1]})
    # ---- FST -------------------------------------------------------------------------------------
    st, t = outcome(lambda: c16.build(case["fst"]))
    if st == "ok":
        a = c16.extract(t)
        got = outcome(lambda: c16.extract(FST.from_networkx(t.to_networkx())))
        res.evals += 1
        if got[0] != "ok":
            res.violation("fst.networkx", "round trip raised %s" % got[1])
        elif c16.canon(a) != c16.canon(got[1]):
            res.violation("fst.networkx", "round trip changed the transducer", detail={"before": a, "after": got[1]})
    # ---- CFG text --------------------------------------------------------------------------------
    st, cfg = outcome(lambda: G.build(case["g"]))
    if st == "ok":
        g = G.extract(cfg)
        got = outcome(lambda: G.extract(CFG.from_text(cfg.to_text(), Variable(g["start"]))))
        res.evals += 1
        if got[0] != "ok":
            res.violation("cfg.text", "round trip raised %s" % got[1], detail={"text": outcome(cfg.to_text)})
        else:
            r = got[1]
            if G.same(g, r, ("start", "prods")):
                ters = sorted(set(g["ters"]))[:3]
                words = G.words_upto(ters, 3)
                m1 = drv.call("cfg.member", G=g, words=words)
                m2 = drv.call("cfg.member", G=r, words=words)
                if m1 != m2:
                    res.violation("cfg.text", "round trip changes the language",
                                  detail={"text": cfg.to_text(), "before": g["prods"], "after": r["prods"]})
                else:
                    res.violation("cfg.text", "round trip changes the productions (same words up to length 3)",
                                  detail={"text": cfg.to_text(), "before": g["prods"], "after": r["prods"]})
    if case.get("toks"):
        codec_tie(case["toks"], drv, res)
        st_l, _ = outcome(lambda: label_tie(pda if st_pda == "ok" else None, t if st == "ok" else None,
                                            int(case_key(case), 16), drv, res), limit=8.0)
    # ---- recursive automata ----------------------------------------------------------------------
    lines = case["ebnf"]
    text = "\n".join("%s -> %s" % (h, b) for h, b in lines)
    got = outcome(lambda: RecursiveAutomaton.from_ebnf(text), limit=8.0)
    res.evals += 1
    if got[0] == "ok":
        rsa = got[1]
        heads = sorted({h for h, _ in lines})
        if sorted(str(s.value) for s in rsa.nonterminals) != heads:
            res.violation("from_ebnf", "boxes do not correspond to the heads",
                          detail={"heads": heads, "boxes": sorted(str(s.value) for s in rsa.nonterminals)})
        for h in heads:
            bodies = [b for hh, b in lines if hh == h]
            trees = [(("ok", ["eps"]) if not b.strip() else outcome(lambda b=b: X.tree_of(Regex(b)))) for b in bodies]
            if any(t[0] != "ok" for t in trees):
                continue
            tree = trees[0][1]
            for t in trees[1:]:
                tree = ["alt", tree, t[1]]
            box = rsa.get_box_by_nonterminal(h)
            if box is None:
                continue
            names = sorted({str(s.value) for s in box.dfa.symbols})
            bx = F.extract(box.dfa, F.Codes([]), F.Codes(names))
            e = drv.call("rx.faEquiv", tree=tree, A=F.renumber(bx), symNames=names)
            res.evals += 1
            if not e["equiv"]:
                res.violation("from_ebnf", "box does not accept the alternatives of its head",
                              detail={"head": h, "bodies": bodies, "word": e["word"]})
    elif got[0] == "exc" and got[1] != "MisformedRegexError":
        res.violation("from_ebnf", "raised %s" % got[1], detail={"text": text})
    ebnf_text_tie(text, case, drv, res)
    # from_regex
    b0 = lines[0][1] if lines[0][1].strip() else "$"
    got = outcome(lambda: (X.tree_of(Regex(b0)), RecursiveAutomaton.from_regex(Regex(b0), "S")), limit=8.0)
    if got[0] == "ok":
        tree, rsa = got[1]
        box = rsa.get_box_by_nonterminal("S")
        names = sorted({str(s.value) for s in box.dfa.symbols})
        bx = F.extract(box.dfa, F.Codes([]), F.Codes(names))
        e = drv.call("rx.faEquiv", tree=tree, A=F.renumber(bx), symNames=names)
        res.evals += 1
        if not e["equiv"] or rsa.get_number_boxes() != 1:
            res.violation("from_regex", "the single box does not accept the regex", detail={"regex": b0})
    # ---- networkx export / import against the Lean model (names coinciding with decoration nodes included) ----
    if "nx" in case:
        c20nx.run(case["nx"], drv, res)
    # ---- to_text / from_text against the character-level Lean model ---------------------------------------------
    if "txt" in case:
        c20txt.run(case["txt"], drv, res)
    return res
