"""C17 - indexed-grammar emptiness is exact and independent of rule order."""
import itertools
from pyformlang.indexed_grammar import (IndexedGrammar, Rules, EndRule, ProductionRule, ConsumptionRule,
                                        DuplicationRule)
from pyformlang.regular_expression import Regex
from ..core import CaseResult, outcome

ID = "C17"
RULE = ("random reduced-form indexed grammars (2-5 non-terminals, 1-2 indices, all four rule kinds, several consumption "
        "rules for the same index and variable, recursion through the stack, duplicate rules); is_empty() is run for "
        "up to 8 permutations of the rule list (all 24/120 in the thorough tier) x optim in 0..8 and compared with the "
        "Lean marking model (verdict and, when empty, the complete marking table); non-emptiness is certified "
        "independently by an explicit derivation found by bounded search; remove_useless_rules() must keep the verdict "
        "and is compared with the model; the intersection with a regular language (incl. languages over symbols spelled like "
        "non-terminals) is compared rule by rule, after remove_useless_rules, with the Lean model of the triple "
        "construction (proved: non-empty exactly when a derivable word is accepted), must be non-empty when a "
        "derivable word found by bounded enumeration is accepted and empty when the grammar's language is empty. Non-trivial: >=4 rules of >=3 kinds.")
LEVEL = "proof"
THEOREMS = ["Pfl.IG.isEmptyLib_isSome",
            "Pfl.IG.isEmptyLib_total",
            "Pfl.IG.isEmptyLib_iff",
            "Pfl.IG.isEmptyLibO_iff",
            "Pfl.IG.isEmptyLib_perm",
            "Pfl.IG.isEmptyLibO_perm",
            "Pfl.IG.isEmptyLibO_ord",
            "Pfl.IG.isEmptyLib_eq_isEmpty",
            "Pfl.IG.inter_nonEmpty",
            "Pfl.IG.derivable_iff_gen",
            "Pfl.IG.derivable_sound",
            "Pfl.IG.marks_sound",
            "Pfl.IG.marks_complete",
            "Pfl.IG.isEmpty_iff",
            "Pfl.IG.removeUseless_nonEmpty"]
NTS = ["S", "A", "B", "C", "D"]
IDX = ["f", "g"]


def gen_chain(rng):
    """a chain of production rules whose indices are (mostly) never consumed, used twice by a duplication"""
    k = rng.randint(1, 3)
    names = ["A", "B", "C", "D"][:k + 1]
    rules = [["dup", "S", names[0], rng.choice(names)]] if rng.random() < 0.7 else [["prod", "S", names[0], "f"]]
    for i in range(k):
        rules.append(["prod", names[i], names[i + 1], rng.choice(IDX)])
    rules.append(["end", names[k], rng.choice(["a", "b"])])
    if rng.random() < 0.4:
        rules.append(["cons", rng.choice(IDX), rng.choice(names), rng.choice(names)])
    rng.shuffle(rules)
    return {"rules": rules, "start": "S"}


def gen_combo(rng):
    """a production rule whose right non-terminal has several marked sets, each consumable on the index:
    the 'combination of consumption alternatives' (addrec_bis / addrec_ter), with recursion through the stack
    and the rule that needs the new mark listed anywhere"""
    names = rng.sample(["A", "B", "C", "D", "E", "F", "G", "H"], 6)
    a, b, c, d, e, t = names
    f = rng.choice(IDX)
    rules = [["dup", "S", a, t], ["prod", a, b, f], ["dup", b, c, d], ["cons", f, c, e], ["cons", f, d, e],
             ["end", e, rng.choice(["a", "b"])], ["end", t, rng.choice(["a", "b"])]]
    if rng.random() < 0.8:
        rules.append(["cons", f, b, rng.choice([a, e, b])])       # the identity set {B} is consumable too
    if rng.random() < 0.4:
        rules.append(["cons", f, c, rng.choice([a, b, d])])       # a second alternative for one member
    if rng.random() < 0.3:
        del rules[rng.randrange(2, len(rules))]                   # sometimes break the derivation
    rng.shuffle(rules)
    return {"rules": rules, "start": "S"}


def gen_ig(rng):
    r0 = rng.random()
    if r0 < 0.25:
        return gen_chain(rng)
    if r0 < 0.45:
        return gen_combo(rng)
    nts = NTS[:rng.randint(2, 5)]
    idx = IDX[:rng.randint(1, 2)]
    rules = []
    for _ in range(rng.randint(2, 8)):
        k = rng.random()
        if k < 0.25:
            rules.append(["end", rng.choice(nts), rng.choice(["a", "b", "epsilon"])])
        elif k < 0.5:
            rules.append(["prod", rng.choice(nts), rng.choice(nts), rng.choice(idx)])
        elif k < 0.75:
            rules.append(["cons", rng.choice(idx), rng.choice(nts), rng.choice(nts)])
        else:
            rules.append(["dup", rng.choice(nts), rng.choice(nts), rng.choice(nts)])
    if rng.random() < 0.2 and rules:
        rules.append(list(rng.choice(rules)))   # duplicate rule
    return {"rules": rules, "start": "S" if rng.random() < 0.85 else rng.choice(nts)}


def mk_rule(r):
    if r[0] == "end":
        return EndRule(r[1], r[2])
    if r[0] == "prod":
        return ProductionRule(r[1], r[2], r[3])
    if r[0] == "cons":
        return ConsumptionRule(r[1], r[2], r[3])
    return DuplicationRule(r[1], r[2], r[3])


def rule_json(x):
    if x.is_end_rule():
        return ["end", x.left_term, x.right_term]
    if x.is_production():
        return ["prod", x.left_term, x.right_term, x.production]
    if x.is_consumption():
        return ["cons", x.f_parameter, x.left_term, x.right]
    return ["dup", x.left_term, x.right_terms[0], x.right_terms[1]]


def all_rules(g):
    out = [rule_json(x) for x in g.rules.rules]
    for lst in g.rules.consumption_rules.values():
        out += [rule_json(x) for x in lst]
    return out


def generate(rng, tier):
    while True:
        yield {"g": gen_ig(rng), "pseed": rng.randrange(1 << 30), "tier": tier}


def words_of(spec, depth=6, limit=40):
    """bounded enumeration of derivable terminal words (list of symbols), for the intersection clause"""
    rules = spec["rules"]
    out = set()

    def expand(form, d):
        # form: list of terminals (str) or (nt, stack-tuple)
        if len(out) >= limit:
            return
        for i, x in enumerate(form):
            if isinstance(x, tuple):
                if d == 0:
                    return
                a, st = x
                for r in rules:
                    if r[0] == "end" and r[1] == a:
                        expand(form[:i] + ([] if r[2] == "epsilon" else [r[2]]) + form[i + 1:], d - 1)
                    elif r[0] == "prod" and r[1] == a:
                        expand(form[:i] + [(r[2], (r[3],) + st)] + form[i + 1:], d - 1)
                    elif r[0] == "cons" and r[2] == a and st and st[0] == r[1]:
                        expand(form[:i] + [(r[3], st[1:])] + form[i + 1:], d - 1)
                    elif r[0] == "dup" and r[1] == a and len(form) < 5:
                        expand(form[:i] + [(r[2], st), (r[3], st)] + form[i + 1:], d - 1)
                return
        out.add(tuple(form))
    expand([(spec["start"], ())], depth)
    return sorted(out)


def lib_step_tie(rules, perm, start, drv, res):
    """step-level tie with the faithful model of the library's own loop (Pfl/Model/IndexedMark.lean): the loop of
    is_empty() is replayed on a fresh object by calling the real _duplication_processing / _production_process;
    before every call the live `marked` dict (every set listed in Python's iteration order) and the rule go to
    the model's stepLib, whose table after the call and both flags must be the implementation's"""
    prules = [rules[i] for i in perm]
    st, g = outcome(lambda: IndexedGrammar(Rules([mk_rule(r) for r in prules], 0), start))
    if st != "ok" or not hasattr(g, "_duplication_processing") or not hasattr(g, "_production_process"):
        res.tag("lib_step_unavailable")
        return
    lib = drv.call("ig.libRun", rules=prules, start=start)

    def snap():
        return {k: sorted(tuple(sorted(e)) for e in v) for k, v in g.marked.items()}
    res.corr += 1
    if snap() != {k: sorted(tuple(e) for e in v) for k, v in lib["init"]}:
        res.corr_break("is_empty", "initial marking differs from the model", detail={"rules": prules, "impl": snap()})
        return
    calls = 0
    modified = True
    verdict = None
    while modified and calls < 400 and verdict is None:
        modified = False
        for rule in g.rules.rules:
            if rule.is_duplication():
                rj = ["dup", rule.left_term, rule.right_terms[0], rule.right_terms[1]]
                f = g._duplication_processing        # pylint: disable=protected-access
            elif rule.is_production():
                rj = ["prod", rule.left_term, rule.right_term, rule.production]
                f = g._production_process            # pylint: disable=protected-access
            else:
                continue
            before = [[k, [sorted(e) for e in list(v)]] for k, v in g.marked.items()]
            got = outcome(lambda: f(rule), limit=3.0)
            calls += 1
            if got[0] != "ok":
                res.tag("lib_step_raised")
                return
            m = drv.call("ig.libStep", rules=prules, start=start, rule=rj, table=before)
            res.corr += 1
            after = snap()
            want = {k: sorted(tuple(e) for e in v) for k, v in m["table"]}
            if after != want or bool(got[1][0]) != m["modified"] or bool(got[1][1]) != m["stop"]:
                res.corr_break("is_empty", "one call of %s differs from the model of the library's loop" % f.__name__,
                               detail={"rules": prules, "rule": rj, "before": before, "impl": [after, got[1]],
                                       "model": [want, m["modified"], m["stop"]]})
                return
            modified = modified or bool(got[1][0])
            if got[1][1]:
                verdict = False
                break
    if verdict is None:
        verdict = frozenset() not in g.marked[start]
        # regular end: the final table is the model's (as sets), whatever the iteration orders were
        if lib["isEmpty"] is not None and snap() != {k: sorted(tuple(e) for e in v) for k, v in lib["final"]}:
            res.corr_break("is_empty", "final marking of the replayed loop differs from the model's",
                           detail={"rules": prules, "impl": snap(), "model": lib["final"]})
            return
    res.corr += 1
    if lib["isEmpty"] is not None and verdict != lib["isEmpty"]:
        res.corr_break("is_empty", "verdict of the replayed loop differs from the model of the library's loop",
                       detail={"rules": prules, "impl": verdict, "model": lib["isEmpty"]})
    res.tag("lib_step_tie")


def run_case(case, drv):
    import random
    res = CaseResult()
    spec = case["g"]
    rules = spec["rules"]
    kinds = {r[0] for r in rules}
    res.nontrivial = len(rules) >= 4 and len(kinds) >= 3
    M = drv.call("ig.isEmpty", rules=rules, start=spec["start"])
    if M["isEmpty"] is None:
        res.tag("model_fuel")
        return res
    truth = M["isEmpty"]
    res.tag("empty_%s" % truth)
    rng = random.Random(case["pseed"])
    thorough = case.get("tier") == "thorough"
    if len(rules) <= 5:
        perms = list(itertools.permutations(range(len(rules))))
    else:
        perms = [tuple(rng.sample(range(len(rules)), len(rules))) for _ in range(120 if thorough else 24)]
    heavy = set(rng.sample(range(len(perms)), min(len(perms), 24 if thorough else 6)))
    for perm in ([perms[0]] + ([perms[len(perms) // 2]] if len(perms) > 1 else [])):
        lib_step_tie(rules, perm, spec["start"], drv, res)
    # the ordering heuristics only permute the rules (what isEmptyLibO_perm quantifies over)
    st0, base = outcome(lambda: sorted(map(tuple, all_rules(IndexedGrammar(Rules([mk_rule(r) for r in rules], 0), spec["start"])))))
    for optim in range(1, 9):
        st1, got_r = outcome(lambda: sorted(map(tuple, all_rules(IndexedGrammar(Rules([mk_rule(r) for r in rules], optim), spec["start"])))), limit=5.0)
        res.evals += 1
        if st0 == "ok" and (st1 != "ok" or got_r != base):
            res.violation("Rules", "the ordering heuristic optim=%d does not return a permutation of the rules" % optim,
                          detail={"optim": optim, "rules": rules, "ordered": got_r if st1 == "ok" else st1, "listed": base})
            break
    for pi, perm in enumerate(perms):
        # the listed order is what optim 0 visits; the other heuristics are sampled
        for optim in (range(9) if pi in heavy else [0]):
            def run():
                rs_ = Rules([mk_rule(rules[i]) for i in perm], optim)
                if case["pseed"] % 5 == 0:
                    # construction history: a production rule that is not in the grammar is added and removed again
                    extra = ("S", "Zq", "f")
                    if ["prod", "S", "Zq", "f"] not in rules:
                        rs_.add_production(*extra)
                        rs_.remove_production(*extra)
                g = IndexedGrammar(rs_, spec["start"])
                return g.is_empty(), g
            got = outcome(run, limit=5.0)
            res.evals += 1
            res.corr += 1
            if got[0] != "ok":
                res.violation("is_empty", "raised / hung: %s" % (got,), detail={"perm": perm, "optim": optim})
                return res
            verdict, g = got[1]
            if verdict != truth:
                # certify independently of the (not yet fully proved) marking oracle where possible
                cert = "derivation found by bounded search" if M["derivable"] else "no derivation of depth <= 12"
                if verdict is True and M["derivable"]:
                    res.violation("is_empty", "answers True although a terminal word is derivable",
                                  detail={"perm": perm, "optim": optim, "certificate": cert}, model_agrees=False)
                    return res
                if verdict is False and not M["derivable"]:
                    res.violation("is_empty", "answers False; the marking oracle says empty and no derivation of "
                                  "depth <= 12 exists", detail={"perm": perm, "optim": optim}, model_agrees=False)
                    return res
            elif verdict is True:
                # full fixpoint reached: the marking table must be the model's
                impl_marks = sorted((a, tuple(sorted(e))) for a, es in g.marked.items() for e in es)
                model_marks = sorted((a, tuple(e)) for a, e in M["marks"])
                if impl_marks != model_marks:
                    res.corr_break("is_empty", "marking table differs from the model's fixpoint",
                                   detail={"perm": perm, "optim": optim, "impl": impl_marks[:12], "model": model_marks[:12]})
                    return res
    # ---- remove_useless_rules -------------------------------------------------------------------
    def run_ru():
        g = IndexedGrammar(Rules([mk_rule(r) for r in rules]), spec["start"])
        h = g.remove_useless_rules()
        return h.is_empty(), all_rules(h)
    got = outcome(run_ru, limit=5.0)
    res.evals += 1
    if got[0] != "ok":
        res.violation("remove_useless_rules", "raised / hung: %s" % (got,))
    else:
        verdict, rr = got[1]
        if verdict != truth:
            res.violation("remove_useless_rules", "verdict changed after remove_useless_rules()",
                          detail={"before": truth, "after": verdict},
                          scope=(["start_not_S"] if spec["start"] != "S" else []))
        MR = drv.call("ig.removeUseless", rules=rules, start=spec["start"])
        res.corr += 1
        if sorted(map(tuple, rr)) != sorted(set(map(tuple, MR))) and verdict == truth:
            res.corr_break("remove_useless_rules", "rule set differs from model",
                           detail={"impl": sorted(map(tuple, rr))[:10], "model": sorted(set(map(tuple, MR)))[:10]})
    # ---- intersection with a regular language ---------------------------------------------------
    if spec["start"] == "S" and case["pseed"] % 4 == 0 and len(rules) <= 6:
        ws = words_of(spec)
        for text, pred in [(("(a|b)*", lambda w: True), ("a*", lambda w: all(c == "a" for c in w)),
                            ("b (a|b)*", lambda w: w[:1] == ("b",)), ("a", lambda w: w == ("a",)),
                            ("b", lambda w: w == ("b",)), ("a*", lambda w: all(c == "a" for c in w)),
                            # symbols spelled like non-terminals of the grammar
                            ("S", lambda w: w == ("S",)), ("A|a", lambda w: w in (("A",), ("a",))),
                            ("a S", lambda w: w == ("a", "S")))[case.get("rx", case["pseed"]) % 9]]:
            kept = {}

            def run_i(text=text):
                g = IndexedGrammar(Rules([mk_rule(r) for r in rules]), "S")
                fst_ = Regex(text).to_epsilon_nfa().to_fst()
                kept["fst"] = fst_
                ig_ = fst_.intersection(g)
                kept["ig"] = ig_
                return ig_.is_empty()
            got = outcome(run_i, limit=8.0, retry=False)
            # structural tie with the triple-construction model (Pfl/Model/IndexedInter.lean): same transducer,
            # same rules after remove_useless_rules, same verdict
            if got[0] == "ok" and "ig" in kept and len(kept["fst"].states) <= 4:
                fst_ = kept["fst"]
                tj = {"states": [repr(q) for q in fst_.states], "starts": [repr(q) for q in fst_.start_states],
                      "finals": [repr(q) for q in fst_.final_states],
                      "delta": [[repr(k[0]), (None if k[1] == "epsilon" else k[1]), repr(t[0]), list(t[1])]
                                for k, ts in fst_._delta.items() for t in ts]}  # pylint: disable=protected-access
                st_m, mi = outcome(lambda: drv.call("ig.inter", _timeout=8.0, rules=rules, start="S", T=tj), limit=10.0, retry=False)
                if st_m == "ok":
                    res.corr += 1
                    # the output word of an end rule is irrelevant for emptiness and printed differently
                    strip = lambda rs_: sorted({(r[0], r[1]) if r[0] == "end" else tuple(r) for r in rs_})
                    impl_rules = strip(all_rules(kept["ig"]))
                    model_rules = strip(mi["rules"])
                    if strip(impl_rules) != strip(model_rules):
                        res.corr_break("intersection", "rules differ from the triple-construction model",
                                       detail={"regex": text, "impl": strip(impl_rules)[:12], "model": strip(model_rules)[:12],
                                               "n_impl": len(impl_rules), "n_model": len(model_rules)})
                    elif mi["isEmpty"] is not None and mi["isEmpty"] != got[1]:
                        res.corr_break("intersection", "verdict differs from the model", detail={"regex": text})
                    res.tag("inter_tie")
                else:
                    res.tag("inter_tie_skipped")
            res.evals += 1
            if got[0] == "timeout":
                res.tag("inter_timeout")
                continue
            if got[0] != "ok":
                res.violation("intersection", "raised %s" % got[1], detail={"regex": text})
                continue
            hit = [w for w in ws if pred(w)]
            if hit and got[1] is True:
                res.violation("intersection", "empty although a derivable word is accepted by the regular language",
                              detail={"regex": text, "word": hit[0]})
            if truth is True and got[1] is False:
                res.violation("intersection", "non-empty although the grammar's language is empty",
                              detail={"regex": text})
    return res
