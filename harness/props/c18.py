"""C18 - feature grammars: unification is the glb; FCFG membership respects unification."""
import itertools
from pyformlang.cfg import CFG, Variable, Terminal, Production
from pyformlang.fcfg import FCFG, FeatureStructure, FeatureProduction
from pyformlang.fcfg.feature_structure import FeatureStructuresNotCompatibleException
from .. import cfgdom as G
from ..core import CaseResult, outcome
from .c14 import tree_json

ID = "C18"
RULE = ("(a) random pairs of consistently typed feature structures (atomic features n, c with values from a 2-element "
        "domain, a record feature agr with the same sub-features, any feature possibly unspecified or absent): unify in "
        "both argument orders must succeed exactly when no shared path carries two different atoms, leave the receiver "
        "with the union of the information (compared leaf by leaf with the Lean glb) and raise "
        "FeatureStructuresNotCompatibleException otherwise; (b) random feature grammars: feature-free ones must agree "
        "with the CFG membership oracle on all words of length <=3/4; agreement grammars (every non-terminal occurrence "
        "carries the feature n as a constant or a variable shared between head and body) must agree with the plain CFG "
        "obtained by instantiating the variables over the domain, and with the step-faithful Earley model on every "
        "word; grammars with two features per occurrence (variables shared across features and occurrences, absent "
        "features, a structured stream in which one item is derivable with and without sharing) are decided by their "
        "instantiated grammar; returned parse trees are checked against the underlying CFG; (c) structures with "
        "shared variables: unify (single calls and chains re-using an absorbed argument) against the pointer-level "
        "model and the ground-meaning oracle. Non-trivial: structures with >=3 leaves / grammars with >=3 productions.")
LEVEL = "proof"
THEOREMS = ["Pfl.Earley.containsSpec_isSome",
            "Pfl.Earley.earley_total",
            "Pfl.Earley.earley_total_harness",
            "Pfl.Earley.earley_fuel_irrelevant",
            "Pfl.Earley.earley_sound",
            "Pfl.Earley.earley_complete",
            "Pfl.Earley.earley_exact",
            "Pfl.Earley.earley_complete_harness",
            "Pfl.Earley.earley_complete_plain",
            "Pfl.Earley.instNamesInjective_harness",
            "Pfl.Earley.earley_complete_needs_injective_names",
            "Pfl.FsDag.unifySFS_ok",
            "Pfl.FsDag.unifySFS_conflict",
            "Pfl.FsDag.unifySFS_terminates",
            "Pfl.FS.unify_none_iff",
            "Pfl.FS.unify_facts",
            "Pfl.FS.unify_wt",
            "Pfl.FS.unify_comm",
            "Pfl.CFG.cfgMem_iff",
            "Pfl.CFG.treeValid_sound"]
VALS = ["s", "p"]


def gen_fs(rng, depth=0):
    """typed: n, c atomic; agr a record with n, c"""
    fields = []
    for f in ("n", "c"):
        r = rng.random()
        if r < 0.45:
            fields.append([f, rng.choice(VALS)])
        elif r < 0.65:
            fields.append([f, None])
    if depth == 0 and rng.random() < 0.6:
        fields.append(["agr", gen_fs(rng, 1)])
    rng.shuffle(fields)
    return fields


def build_fs(spec):
    if spec is None:
        return FeatureStructure()
    if isinstance(spec, str):
        return FeatureStructure(spec)
    fs = FeatureStructure()
    for f, x in spec:
        fs.add_content(f, build_fs(x))
    return fs


def read_fs(fs):
    out = []
    for path in fs.get_all_paths():
        v = fs.get_feature_by_path(path).value if path else fs.value
        out.append((tuple(path), v))
    return sorted(out, key=lambda e: (e[0], str(e[1])))


PATHS = [["n"], ["c"], ["agr", "n"], ["agr", "c"]]


def gen_sfs(rng, prefix):
    """flat description of a typed structure with sharing: path -> atom | var | free | absent"""
    leaves = []
    for p in PATHS:
        r = rng.random()
        if r < 0.3:
            leaves.append([p, "atom", rng.choice(VALS)])
        elif r < 0.65:
            leaves.append([p, "var", prefix + rng.choice("xy")])
        elif r < 0.8:
            leaves.append([p, "free", ""])
    return leaves


def build_sfs(leaves):
    """through the public constructors: shared variables are shared FeatureStructure objects"""
    root = FeatureStructure()
    variables = {}
    agr = None
    for p, k, v in leaves:
        if k == "atom":
            leaf = FeatureStructure(v)
        elif k == "var":
            if v not in variables:
                variables[v] = FeatureStructure()
            leaf = FeatureStructure()
            leaf.pointer = variables[v]
        else:
            leaf = FeatureStructure()
        if len(p) == 1:
            root.add_content(p[0], leaf)
        else:
            if agr is None:
                agr = FeatureStructure()
                root.add_content("agr", agr)
            agr.add_content(p[1], leaf)
    return root


def read_sfs(fs):
    """observable constraints of a structure: atoms and sharing classes (identity of dereferenced leaves)"""
    out = []
    classes = {}
    for p in PATHS:
        try:
            node = fs.get_feature_by_path(p)
        except Exception:  # pylint: disable=broad-except
            continue
        node = node.get_dereferenced()
        if node.content:
            continue
        if node.value is not None:
            out.append([p, "atom", node.value])
        else:
            out.append([p, "var", "c%d" % classes.setdefault(id(node), len(classes))])
    return out


def gen_fcfg(rng):
    """agreement grammar: each non-terminal occurrence carries n = constant | ?variable | (feature-free)"""
    vs = ["S", "A", "B"][:rng.randint(2, 3)]
    if rng.random() < 0.15:
        vs = vs[:-1] + [rng.choice(["Gamma", "Gamma'", "BEGIN"])]    # names the parser uses internally
    ts = ["a", "b", "c"][:rng.randint(1, 3)]
    featured = rng.random() < 0.6
    prods = []
    for _ in range(rng.randint(2, 6)):
        head = rng.choice(vs)
        body = []
        for _ in range(rng.choice([0, 1, 1, 2, 2, 3]) if rng.random() < 0.9 else 0):
            if rng.random() < 0.5:
                body.append(["t", rng.choice(ts)])
            else:
                body.append(["v", rng.choice(vs), rng.choice(VALS + ["?x", "?x", "?y"]) if featured else None])
        hfeat = rng.choice(VALS + ["?x", "?x"]) if featured else None
        prods.append([[head, hfeat], body])
    return {"prods": prods, "featured": featured, "ters": ts}


def fs_for(val, variables):
    fs = FeatureStructure()
    if val is None:
        return fs
    if val.startswith("?"):
        if val not in variables:
            variables[val] = FeatureStructure()
        inner = FeatureStructure()
        inner.pointer = variables[val]
        fs.add_content("n", inner)
    else:
        fs.add_content("n", FeatureStructure(val))
    return fs


def build_fcfg(spec):
    prods = []   # a list: Production equality ignores the features, a set would drop rules (repaired; formerly KF-C18-3)
    for (head, hfeat), body in spec["prods"]:
        variables = {}
        hfs = fs_for(hfeat, variables)
        syms, bfs = [], []
        for item in body:
            if item[0] == "t":
                syms.append(Terminal(item[1]))
                bfs.append(FeatureStructure())
            else:
                syms.append(Variable(item[1]))
                bfs.append(fs_for(item[2], variables))
        prods.append(FeatureProduction(Variable(head), syms, hfs, bfs))
    return FCFG(start_symbol=Variable("S"), productions=prods)


def instantiate(spec):
    """the plain CFG obtained by instantiating every feature variable over VALS"""
    prods = []
    for (head, hfeat), body in spec["prods"]:
        names = sorted({x for x in [hfeat] + [i[2] for i in body if i[0] == "v"] if x and x.startswith("?")})
        for combo in itertools.product(VALS, repeat=len(names)):
            env = dict(zip(names, combo))
            val = lambda x: env.get(x, x)  # noqa: E731
            h = "%s_%s" % (head, val(hfeat)) if hfeat else head
            b = []
            for i in body:
                if i[0] == "t":
                    b.append(["t", i[1]])
                else:
                    b.append(["v", "%s_%s" % (i[1], val(i[2])) if i[2] else i[1]])
            prods.append([h, b])
    if spec["featured"]:
        for v in VALS:
            prods.append(["Start", [["v", "S_%s" % v]]])
        start = "Start"
    else:
        start = "S"
    return {"vars": [], "ters": list(spec["ters"]), "start": start, "prods": prods}


# ---- two-feature agreement grammars: features N and C on every occurrence, variables shared across features ----
FEATS2 = ["N", "C"]


def gen_fcfg2(rng, VALS):
    vs = ["S", "A", "B"][:rng.randint(2, 3)]
    ts = ["a", "b", "c"][:rng.randint(1, 3)]

    def feats():
        out = []
        for _ in FEATS2:
            r = rng.random()
            out.append(None if r < 0.2 else (rng.choice(VALS) if r < 0.5 else rng.choice(["?x", "?x", "?y", "?z"])))
        return out
    prods = []
    for _ in range(rng.randint(2, 6)):
        head = rng.choice(vs)
        body = []
        for _ in range(rng.choice([0, 1, 1, 2, 2, 3]) if rng.random() < 0.9 else 0):
            if rng.random() < 0.5:
                body.append(["t", rng.choice(ts)])
            else:
                body.append(["v", rng.choice(vs), feats()])
        prods.append([[head, feats()], body])
    return {"prods": prods, "ters": ts}


def build_fcfg2(spec):
    from pyformlang.cfg import Variable, Terminal
    from pyformlang.fcfg import FCFG, FeatureProduction, FeatureStructure

    def fs_of(fl, variables):
        fs = FeatureStructure()
        for name, val in zip(FEATS2, fl):
            if val is None:
                continue
            if val.startswith("?"):
                if val not in variables:
                    variables[val] = FeatureStructure()
                leaf = FeatureStructure()
                leaf.pointer = variables[val]
            else:
                leaf = FeatureStructure(val)
            fs.add_content(name, leaf)
        return fs
    prods = []
    for (head, hf), body in spec["prods"]:
        variables = {}
        hfs = fs_of(hf, variables)
        syms, bfs = [], []
        for item in body:
            if item[0] == "t":
                syms.append(Terminal(item[1]))
                bfs.append(FeatureStructure())
            else:
                syms.append(Variable(item[1]))
                bfs.append(fs_of(item[2], variables))
        prods.append(FeatureProduction(Variable(head), syms, hfs, bfs))
    return FCFG(start_symbol=Variable("S"), productions=prods)


def instantiate2(spec, VALS):
    """plain CFG: every occurrence X[N=.,C=.] becomes X_n_c; an absent feature is unconstrained (all values)"""
    prods = []
    for (head, hf), body in spec["prods"]:
        occ = [hf] + [i[2] for i in body if i[0] == "v"]
        # absent features are fresh variables of their own
        occ2, k = [], 0
        for fl in occ:
            new = []
            for v in fl:
                if v is None:
                    new.append("?_%d" % k)
                    k += 1
                else:
                    new.append(v)
            occ2.append(new)
        names = sorted({v for fl in occ2 for v in fl if v.startswith("?")})
        for combo in itertools.product(VALS, repeat=len(names)):
            env = dict(zip(names, combo))
            val = lambda x: env.get(x, x)  # noqa: E731
            it = iter(occ2)
            hfl = next(it)
            h = "%s_%s" % (head, "_".join(val(v) for v in hfl))
            b = []
            for i in body:
                if i[0] == "t":
                    b.append(["t", i[1]])
                else:
                    fl = next(it)
                    b.append(["v", "%s_%s" % (i[1], "_".join(val(v) for v in fl))])
            prods.append([h, b])
    for combo in itertools.product(VALS, repeat=len(FEATS2)):
        prods.append(["Start", [["v", "S_" + "_".join(combo)]]])
    # dedupe
    seen, out = set(), []
    for h, b in prods:
        key = (h, tuple(map(tuple, b)))
        if key not in seen:
            seen.add(key)
            out.append([h, b])
    return {"vars": [], "ters": list(spec["ters"]), "start": "Start", "prods": out}


def gen_sharing(rng, VALS):
    """one item derivable through a rule that shares two features and through a rule that does not, followed by
    a sister that tells the two apart: what subsumption between Earley states must not confuse"""
    x1 = [["X", ["?u", "?u"]], [["t", "a"]]]
    x2 = [["X", ["?u", "?v"]], [["t", "a"]]]
    extra = []
    if rng.random() < 0.4:          # one of the alternatives through a unit rule
        x2 = [["X", ["?u", "?v"]], [["v", "Z", ["?u", "?v"]]]]
        extra.append([["Z", [rng.choice(VALS + ["?w"]), rng.choice(VALS + ["?w", "?r"])]], [["t", "a"]]])
    if rng.random() < 0.3:
        x1 = [["X", [rng.choice(VALS), "?u"]], [["t", "a"]]]
    y = [["Y", [rng.choice(VALS), rng.choice(VALS)]], [["t", "b"]]]
    s = [["S", [None, None]], [["v", "X", ["?a", "?b"]], ["v", "Y", ["?a", "?b"]]]]
    prods = [s, x1, x2, y] + extra
    if rng.random() < 0.3:
        prods.append([["Y", ["?k", "?k"]], [["t", "c"]]])
    rng.shuffle(prods)
    return {"prods": prods, "ters": ["a", "b", "c"]}


def generate(rng, tier):
    while True:
        yield {"a": gen_fs(rng), "b": gen_fs(rng), "sa": gen_sfs(rng, "a"), "sb": gen_sfs(rng, "b"),
               "sc": gen_sfs(rng, "c"), "g": gen_fcfg(rng),
               "g2": (gen_sharing(rng, VALS) if rng.random() < 0.5 else gen_fcfg2(rng, VALS))}


def count_leaves(spec):
    return sum(count_leaves(x) if isinstance(x, list) else 1 for _, x in spec)


def run_case(case, drv):
    res = CaseResult()
    a, b = case["a"], case["b"]
    res.nontrivial = count_leaves(a) + count_leaves(b) >= 3 or len(case["g"]["prods"]) >= 3
    # ---- unification, both argument orders --------------------------------------------------------
    for x, y, tag in ((a, b, "a.unify(b)"), (b, a, "b.unify(a)")):
        want = drv.call("fs.unify", a=x, b=y)
        fx, fy = build_fs(x), build_fs(y)
        got = outcome(lambda: fx.unify(fy))
        res.evals += 1
        res.corr += 1
        if want is None:
            if got != ("exc", "FeatureStructuresNotCompatibleException"):
                res.violation("unify", "incompatible structures are not refused with FeatureStructuresNotCompatibleException",
                              detail={"order": tag, "impl": got if got[0] != "ok" else "unified", "a": x, "b": y})
        else:
            if got[0] != "ok":
                res.violation("unify", "compatible structures are refused: %s" % (got,), detail={"order": tag, "a": x, "b": y})
                continue
            impl = read_fs(fx)
            spec = sorted(((tuple(p), v) for p, v in want), key=lambda e: (e[0], str(e[1])))
            if impl != spec:
                res.violation("unify", "receiver is not the most general structure carrying the information of both",
                              detail={"order": tag, "impl": impl, "spec": spec, "a": x, "b": y})
    # ---- unification with shared variables: ground semantics ------------------------------------------
    sa, sb = case.get("sa"), case.get("sb")
    if sa is not None:
        for x, y, tag in ((sa, sb, "a.unify(b)"), (sb, sa, "b.unify(a)")):
            fx, fy = build_sfs(x), build_sfs(y)
            got = outcome(lambda: fx.unify(fy))
            m = drv.call("fs.meaning", paths=PATHS, vals=VALS, structures=[x, y])
            want = sorted(set(m[0]) & set(m[1]))
            res.evals += 1
            # step-faithful tie: the pointer-level model of unify (Pfl/Model/FeatureDag.lean)
            md = drv.call("fs.unifyDag", paths=PATHS, a=x, b=y)
            res.corr += 1
            if "conflict" in md:
                if got != ("exc", "FeatureStructuresNotCompatibleException"):
                    res.corr_break("unify", "model raises a conflict, the implementation does not",
                                   detail={"order": tag, "a": x, "b": y, "impl": str(got)})
            elif got[0] != "ok":
                res.corr_break("unify", "implementation raises, the model does not",
                               detail={"order": tag, "a": x, "b": y, "impl": str(got)})
            else:
                r_ = read_sfs(fx)
                if [list(map(lambda z: z if not isinstance(z, tuple) else list(z), e)) for e in r_] != md["ok"]:
                    res.corr_break("unify", "receiver differs from the pointer-level model",
                                   detail={"order": tag, "a": x, "b": y, "impl": r_, "model": md["ok"]})
            if not want:
                if got != ("exc", "FeatureStructuresNotCompatibleException"):
                    res.violation("unify", "structures without a common instance are not refused",
                                  detail={"order": tag, "impl": got if got[0] != "ok" else "unified", "a": x, "b": y},
                                  scope=["shared_variables"])
            elif got[0] != "ok":
                res.violation("unify", "compatible structures are refused: %s" % (got,), detail={"order": tag, "a": x, "b": y},
                              scope=["shared_variables"])
            else:
                r = read_sfs(fx)
                mr = drv.call("fs.meaning", paths=PATHS, vals=VALS, structures=[r])[0]
                if sorted(mr) != want:
                    res.violation("unify", "receiver does not denote the common instances of both structures",
                                  detail={"order": tag, "a": x, "b": y, "result": r}, scope=["shared_variables"])
    # ---- chains: an argument that was already absorbed by an earlier unification -------------------------
    sc = case.get("sc")
    if sa is not None and sc is not None:
        fx, fy, fz = build_sfs(sa), build_sfs(sb), build_sfs(sc)
        m3 = drv.call("fs.meaning", paths=PATHS, vals=VALS, structures=[sa, sb, sc])
        first = outcome(lambda: fx.unify(fy))
        if first[0] == "ok":
            want3 = sorted(set(m3[0]) & set(m3[1]) & set(m3[2]))
            got3 = outcome(lambda: fz.unify(fy))
            res.evals += 1
            if not want3:
                if got3 != ("exc", "FeatureStructuresNotCompatibleException"):
                    res.violation("unify", "chain x.unify(y); z.unify(y): no common instance of the three, yet no exception",
                                  detail={"x": sa, "y": sb, "z": sc, "impl": got3 if got3[0] != "ok" else "unified"},
                                  scope=["shared_variables"])
            elif got3[0] != "ok":
                res.violation("unify", "chain x.unify(y); z.unify(y): compatible structures are refused: %s" % (got3,),
                              detail={"x": sa, "y": sb, "z": sc}, scope=["shared_variables"])
            else:
                for who, obj in (("z", fz), ("y", fy), ("x", fx)):
                    rr = read_sfs(obj)
                    mr = drv.call("fs.meaning", paths=PATHS, vals=VALS, structures=[rr])[0]
                    if sorted(mr) != want3:
                        res.violation("unify", "chain x.unify(y); z.unify(y): %s does not denote the common instances of the three" % who,
                                      detail={"x": sa, "y": sb, "z": sc, "read": rr}, scope=["shared_variables"])
                        break
            res.tag("unify_chain")
    # ---- FCFG membership ------------------------------------------------------------------------------
    gs = case["g"]
    st, fg = outcome(lambda: build_fcfg(gs))
    if st != "ok":
        res.tag("fcfg_build_fail")
        return res
    plain = instantiate(gs)
    has_eps = any(not body for _, body in gs["prods"])
    scope = ["eps_production"] if has_eps else []
    skeletons = [(h[0], tuple((i[0], i[1]) for i in body)) for h, body in gs["prods"]]
    feats = [(h[1], tuple((i[2] if i[0] == "v" else None) for i in body)) for h, body in gs["prods"]]
    if any(skeletons[i] == skeletons[j] and feats[i] != feats[j]
           for i in range(len(skeletons)) for j in range(i + 1, len(skeletons))):
        # two rules with the same head and body symbols but different features share one chart key (repaired; formerly KF-C18-3)
        scope.append("duplicate_skeleton")
    ters = sorted(gs["ters"])
    words = G.words_upto(ters, 3 if len(ters) > 2 else 4)[:60]
    mem = drv.call("cfg.member", G=plain, words=words)
    base = {"vars": [], "ters": ters, "start": "S",
            "prods": [[h[0], [[i[0], i[1]] for i in body]] for h, body in gs["prods"]]}
    # step-faithful tie of the Earley recogniser (Pfl/Model/Earley.lean), epsilon productions included
    earley = None
    if True:
        try:
            earley = drv.call("fs.earley", _timeout=20.0, prods=gs["prods"], start="S", words=words[:24])
            earley = earley + [None] * (len(words) - len(earley))
        except Exception:  # pylint: disable=broad-except
            res.tag("earley_model_skipped")
    for idx_w, (w, m) in enumerate(zip(words, mem)):
        got = outcome(lambda w=w: fg.contains(w), limit=3.0)
        res.evals += 1
        agrees = False
        if earley is not None and earley[idx_w] is not None and got[0] == "ok":
            res.corr += 1
            agrees = got[1] == earley[idx_w]
            if not agrees:
                res.corr_break("FCFG.contains", "verdict differs from the Earley model",
                               detail={"word": w, "impl": got[1], "model": earley[idx_w], "grammar": gs})
            res.tag("earley_tie")
        if m is None:
            continue
        if got != ("ok", m):
            res.violation("FCFG.contains", "differs from membership in the instantiated context-free grammar",
                          detail={"word": w, "impl": got, "spec": m, "grammar": gs}, scope=scope, model_agrees=agrees)
            break
        if m:
            t = outcome(lambda w=w: tree_json(fg.get_parse_tree(w)), limit=3.0)
            res.evals += 1
            if t[0] != "ok":
                res.violation("FCFG.get_parse_tree", "member has no (finite) parse tree: %s" % (t,), detail={"word": w},
                              scope=scope + (["earley_shared_trees"] if t == ("exc", "RecursionError") else []))
                break
            if not drv.call("cfg.treeValid", G=base, tree=t[1], word=w):
                res.violation("FCFG.get_parse_tree", "returned tree is not a parse tree of the word",
                              detail={"word": w, "tree": t[1], "grammar": gs}, scope=scope + ["earley_shared_trees"])
                break
    # ---- two features per occurrence (sharing across features): decided by the instantiated grammar ----------
    g2 = case.get("g2")
    if g2 is not None:
        st2, fg2 = outcome(lambda: build_fcfg2(g2))
        if st2 == "ok":
            plain2 = instantiate2(g2, VALS)
            ters2 = sorted(g2["ters"])
            words2 = G.words_upto(ters2, 3)[:30]
            mem2 = drv.call("cfg.member", G=plain2, words=words2)
            for w, m in zip(words2, mem2):
                got = outcome(lambda w=w: fg2.contains(w), limit=3.0, retry=False)
                res.evals += 1
                if m is None or got[0] == "timeout":
                    continue
                if got != ("ok", m):
                    res.violation("FCFG.contains", "differs from membership in the instantiated context-free grammar "
                                  "(two features per occurrence)", detail={"word": w, "impl": got, "spec": m, "grammar": g2})
                    break
            res.tag("two_feature_grammar")
    return res
