"""C19 - objects behave as values: answers never depend on call history or aliasing."""
import random
from pyformlang.regular_expression import Regex
from pyformlang.indexed_grammar import IndexedGrammar, Rules
from .. import fa as F
from .. import cfgdom as G
from .. import pdadom as P
from . import c16, c17
from .. import c19obj
from .. import c19fa
from .. import c19rx
from .. import c19fao
from .. import c19pdo
from .. import c19fso
from ..core import CaseResult, outcome

ID = "C19"
LEVEL = "proof"
RULE = ("random histories of 6-25 public query/conversion calls over a pool of live objects (2 automata, 2 grammars, 2 "
        "regexes, a PDA, a transducer, an indexed grammar), incl. repeated calls, conversions of conversions, the same "
        "object as both operands and mutations of returned objects; after every call its canonical result is compared "
        "with the result of the same call on freshly rebuilt equal objects, and the structure of every operand with its "
        "structure before the call. A divergence is certified by the two runs of the real code. A third of the cases are "
        "histories of 3-12 calls on one grammar object (the ten public methods that read or fill its caches): every "
        "answer and, after every call, the hidden state (_remaining_lists, _generating_symbols, _nullable_symbols, "
        "_normal_form) are compared with the Lean state machine of the object; a fifth are histories on one automaton "
        "object that is edited between queries (add / remove transitions incl. epsilon moves, start and final marks): "
        "every query must answer as a freshly built automaton with the current structure and as the model of that "
        "structure (also of a DFA, also to_regex); a seventh are histories of mutator calls on one EpsilonNFA / NFA / DFA "
        "object (re-adding on entries emptied by removals, second targets, epsilon on a DFA): returned integers, "
        "exception classes and the private fields (_transitions as the dict of dicts it is) after every call against "
        "the Lean object model, table queries against the model, public queries against a fresh object holding only "
        "what is present; an eighth are histories on one PDA object (constructor arguments, add_transition incl. a second outcome on an existing key, start / final marks, conversions in between): private fields after every call against the Lean object model, conversions against a fresh PDA with the current structure; a sixth are histories on a population of Regex objects that share their operands (Regex(text), union / "
        "concatenate / kleene_star incl. an object with itself and inner nodes, to_epsilon_nfa, accepts, edits of the "
        "automata handed out): every answer (state numbers included) and the private _counter / _enfa / _enfa_accepts "
        "of every object against the Lean heap model, the verified matcher and fresh equal objects. Non-trivial: history "
        "with >=8 calls touching >=3 kinds of objects / >=5 calls of >=3 kinds on the grammar object.")
EXPLANATION = "History independence is decided by running every call of a random history twice on the real code - on the live objects and on freshly rebuilt equal objects - and comparing canonical results and operand snapshots; a divergence is certified by the two runs themselves. The value-semantics of the individual operations is what C01-C18 prove; the one piece of hidden mutable state that survives a call - the in-place production counters and impact lists behind get_generating_symbols / get_nullable_symbols - is modelled step for step (Pfl/Model/CFGCounters.lean), proved to be restored by every run and to give history-independent answers (genCounters_restores, genCounters_history), and compared with the implementation's cached tables after every grammar call of a history. The grammar object as a whole is modelled as a state machine (Pfl/Model/CFGObject.lean: the four caches and the ten public methods that read or fill them, following the method bodies); history_independent proves that after any history every call answers what the grammar alone determines (the invariant: every cache holds only what a fresh object computes), and the implementation's answers and private cache fields are compared with the state machine after every call of a random history. Regex objects are modelled as a heap of objects sharing their operands by address (Pfl/Model/RegexObject.lean: the private state counter that is never reset, the counter lent to and taken back from the sons, the automaton cached by accepts); Pfl.RxObj.history_independent proves that along any history every call answers what the tree of the object determines (the automaton handed out is the Thompson automaton of a fresh object shifted by the current counter, thompson_shift, and accepts is membership), and counters and caches of every object are compared with the model after every call. An automaton object edited through its API is modelled with its transition table as the dict of dicts it is (Pfl/Model/FAObject.lean: entries emptied by remove_transition stay, the deterministic table refuses epsilon and a second target and deletes keys); Pfl.FAObj.run_refines proves that after any history the object stands for the value obtained by plain set insertions and removals, the table queries are functions of the set of transitions present (tfDeterministic_iff, numTransitions_eq, mem_call_iff) and two histories leading to the same sets answer alike (Pfl.FAObj.history_independent); returned integers, exception classes and private fields are compared with the model after every call. A PDA object is modelled likewise (Pfl/Model/PDAObject.lean); Pfl.PDAObj.run_edges proves that the transitions present are exactly those added and Pfl.PDAObj.api_wf that everything the API can build satisfies PDA.WF, the hypothesis of the C13 / C11 theorems (true since add_final_state registers its state). An FST object likewise (Pfl/Model/FSTObject.lean: _delta as the dict of lists it is, repetitions kept): Pfl.FSTObj.run_edges, Pfl.FSTObj.api_wf (FST.WF and a repetition-free state list, the hypotheses of the C16 theorems)."
THEOREMS = ["Pfl.CFG.genCounters_restores",
            "Pfl.CFG.genCounters_history",
            "Pfl.CFG.genCounters_generating",
            "Pfl.CFG.genCounters_nullable",
            "Pfl.CFG.Obj.history_independent",
            "Pfl.CFG.Obj.history_vs_fresh",
            "Pfl.CFG.Obj.step_spec",
            "Pfl.CFG.Obj.inv_fresh",
            "Pfl.CFG.Obj.answer_generating",
            "Pfl.CFG.Obj.answer_nullable",
            "Pfl.CFG.Obj.answer_isEmpty",
            "Pfl.CFG.Obj.answer_contains",
            "Pfl.IG.Obj.isEmpty_history_independent",
            "Pfl.IG.Obj.isEmpty_history_fresh",
            "Pfl.IG.Obj.runCalls_total",
            "Pfl.RxObj.process_spec",
            "Pfl.RxObj.process_isSome",
            "Pfl.RxObj.toENFA_spec",
            "Pfl.RxObj.toENFA_lang",
            "Pfl.RxObj.thompson_shift",
            "Pfl.RxObj.step_inv",
            "Pfl.RxObj.step_answer",
            "Pfl.RxObj.accepts_exact",
            "Pfl.RxObj.history_independent",
            "Pfl.RxObj.step_isSome",
            "Pfl.FAObj.run_refines",
            "Pfl.FAObj.step_refines",
            "Pfl.FAObj.step_tinv",
            "Pfl.FAObj.step_error_iff",
            "Pfl.FAObj.step_error_abs",
            "Pfl.FAObj.remT_result",
            "Pfl.FAObj.numTransitions_eq",
            "Pfl.FAObj.tfDeterministic_iff",
            "Pfl.FAObj.mem_call_iff",
            "Pfl.FAObj.det_functional",
            "Pfl.FAObj.history_independent",
            "Pfl.FAObj.run_wf",
            "Pfl.FAObj.run_dfa",
            "Pfl.FAObj.mk_wf",
            "Pfl.FAObj.mkT_wf",
            "Pfl.FAObj.api_wf",
            "Pfl.FAObj.api_dfa",
            "Pfl.PDAObj.run_edges",
            "Pfl.PDAObj.numTransitions_eq",
            "Pfl.PDAObj.run_wf",
            "Pfl.PDAObj.api_wf",
            "Pfl.PDAObj.copyT_spec",
            "Pfl.FSTObj.run_edges",
            "Pfl.FSTObj.numTransitions_eq",
            "Pfl.FSTObj.run_wf",
            "Pfl.FSTObj.api_wf"]
REGEX_TEXTS = ["a", "b", "a b", "a*", "a|b", "(a|b)*", "a b*", "$", "a (b|a)"]
WORDS = [[], ["a"], ["b"], ["a", "b"], ["a", "a"], ["b", "a"], ["a", "b", "b"]]


def exhaustive(tier):
    """every history of at most 3 mutator calls on an automaton object over two states and one symbol (plus epsilon), for
    the three classes: returned integers, exceptions and private fields against Pfl/Model/FAObject.lean"""
    if tier != "thorough":
        return
    import itertools
    for cls in "END":
        syms = [0] if cls == "N" else [0, None]
        alphabet = [[k, q, a, r] for k in ("add_t", "rm_t") for q in (0, 1) for a in syms for r in (0, 1)] + \
                   [[k, q] for k in ("add_s", "rm_s", "add_f", "rm_f") for q in (0, 1)]
        for n in (1, 2, 3):
            for h in itertools.product(alphabet, repeat=n):
                yield {"fo": {"cls": cls, "ops": [list(o) for o in h]}}


def generate(rng, tier):
    while True:
        if rng.random() < 0.2:
            # one automaton object edited between queries (mutators + queries), against fresh objects and the model
            yield {"fah": c19fa.gen_history(rng)}
            continue
        if rng.random() < 0.15:
            # one automaton object (EpsilonNFA / NFA / DFA) as a state machine: returned integers, exceptions and the
            # private fields after every mutator call against Pfl/Model/FAObject.lean
            yield {"fo": c19fao.gen_history(rng)}
            continue
        if rng.random() < 0.08:
            # one FST object: mutators and translations in between, against Pfl/Model/FSTObject.lean
            yield {"so": c19fso.gen_history(rng)}
            continue
        if rng.random() < 0.12:
            # one PDA object: constructor arguments, mutators and conversions in between, against Pfl/Model/PDAObject.lean
            yield {"po": c19pdo.gen_history(rng)}
            continue
        if rng.random() < 0.2:
            # a population of regex objects sharing their operands: answers (state numbers included) and the
            # private counters / caches of every object against Pfl/Model/RegexObject.lean
            yield {"rh": c19rx.gen_history(rng)}
            continue
        if rng.random() < 0.3:
            # one grammar object as a state machine: answers and hidden state against Pfl/Model/CFGObject.lean
            yield {"gh": c19obj.gen_history(rng)}
            continue
        pool = {
            "fa0": F.gen_fa(rng, max_states=3, pool="str"), "fa1": F.gen_fa(rng, max_states=3, pool="int"),
            "g0": G.gen_cfg(rng, max_vars=3, max_prods=5, adversarial=False),
            "g1": G.gen_cfg(rng, max_vars=3, max_prods=5, adversarial=False),
            "r0": rng.choice(REGEX_TEXTS), "r1": rng.choice(REGEX_TEXTS),
            "p0": P.gen_pda(rng, adversarial=False), "t0": c16.gen_fst(rng), "i0": c17.gen_ig(rng)}
        for k in ("fa0", "fa1"):
            pool[k]["symvals"] = ["a", "b", "c"][:len(pool[k]["symvals"])]
        n = rng.randint(6, 25)
        ops = []
        for _ in range(n):
            ops.append(gen_op(rng))
        yield {"pool": pool, "ops": ops}


OPS = [
    ("fa", "accepts"), ("fa", "to_deterministic"), ("fa", "minimize"), ("fa", "to_regex"), ("fa", "difference"),
    ("fa", "intersection"), ("fa", "is_empty"), ("fa", "words"), ("fa", "equivalent"), ("fa", "complement"),
    ("g", "contains"), ("g", "is_empty"), ("g", "generating"), ("g", "nullable"), ("g", "normal_form"),
    ("g", "remove_epsilon"), ("g", "words"), ("g", "is_finite"), ("g", "union"), ("g", "intersection_fa"),
    ("g", "to_pda"), ("g", "reachable"), ("g", "intersection_regex"), ("g", "shared_intersection"),
    ("r", "accepts"), ("r", "to_enfa"), ("r", "union"), ("r", "concatenate"), ("r", "star"), ("r", "str"),
    ("r", "mutate_enfa"), ("r", "to_cfg"),
    ("p", "to_cfg"), ("p", "to_final_state"), ("p", "to_empty_stack"), ("p", "intersection_fa"),
    ("t", "translate"), ("t", "star"), ("t", "union_self"),
    ("i", "is_empty"), ("i", "remove_useless"),
]


def gen_op(rng):
    kind, name = rng.choice(OPS)
    return {"kind": kind, "name": name, "a": rng.randrange(2), "b": rng.randrange(2), "w": rng.randrange(len(WORDS))}


def build_pool(specs):
    objs = {}
    for k, s in specs.items():
        if k.startswith("fa"):
            objs[k] = F.build(s)
        elif k.startswith("g"):
            objs[k] = G.build(s)
        elif k.startswith("r"):
            objs[k] = Regex(s)
        elif k.startswith("p"):
            objs[k] = P.build(s)
        elif k.startswith("t"):
            objs[k] = c16.build(s)
        elif k.startswith("i"):
            objs[k] = IndexedGrammar(Rules([c17.mk_rule(r) for r in s["rules"]]), s["start"])
    return objs


def fa_canon(x):
    yc = F.Codes(["a", "b", "c"])
    e = F.extract(x, F.Codes([]), yc)
    c = F.canon(e)
    # language-level canonical form is too costly here: structure with value-named states
    return (sorted(str(s.value) for s in x.states), sorted(str(s.value) for s in x.symbols),
            sorted(str(s.value) for s in x.start_states),
            sorted(str(s.value) for s in x.final_states),
            sorted((str(a.value), str(getattr(b, "value", b)), str(c2.value)) for a, b, c2 in x._transition_function.get_edges()))  # pylint: disable=protected-access


def g_canon(x):
    return G.canon(G.extract(x)) if all(isinstance(v.value, str) for v in x.variables) else sorted(
        (str(p.head.value), tuple(str(y.value) for y in p.body)) for p in x.productions)


def p_canon(x):
    return P.canon(P.extract(x, state_key=lambda v: str(v)))


def snapshot(objs):
    snap = {}
    for k, o in objs.items():
        if k.startswith("fa"):
            snap[k] = fa_canon(o)
        elif k.startswith("g"):
            snap[k] = g_canon(o)
        elif k.startswith("p"):
            snap[k] = p_canon(o)
        elif k.startswith("t"):
            snap[k] = c16.canon(c16.extract(o))
        elif k.startswith("r"):
            snap[k] = str(o)
        elif k.startswith("i"):
            snap[k] = sorted(map(tuple, c17.all_rules(o)))
    return snap


def apply(objs, op, keep):
    """run one op; returns a canonical result"""
    k, n = op["kind"], op["name"]
    w = WORDS[op["w"]]
    if k == "fa":
        x, y = objs["fa%d" % op["a"]], objs["fa%d" % op["b"]]
        if n == "accepts":
            return x.accepts(w)
        if n == "to_deterministic":
            return fa_canon(x.to_deterministic())
        if n == "minimize":
            return fa_canon(x.minimize())
        if n == "to_regex":
            r = x.to_regex()
            return [r.accepts(v) for v in WORDS]
        if n == "difference":
            d = x.get_difference(y)
            return [d.accepts(v) for v in WORDS]
        if n == "intersection":
            d = x.get_intersection(y)
            return [d.accepts(v) for v in WORDS]
        if n == "is_empty":
            return x.is_empty()
        if n == "words":
            return sorted(tuple(str(s.value) for s in v) for v in x.get_accepted_words(3))
        if n == "equivalent":
            return x.is_equivalent_to(y)
        if n == "complement":
            c = x.get_complement()
            return [c.accepts(v) for v in WORDS]
    if k == "g":
        x, y = objs["g%d" % op["a"]], objs["g%d" % op["b"]]
        if n == "contains":
            return x.contains(w)
        if n == "is_empty":
            return x.is_empty()
        if n == "generating":
            return sorted(str(s) for s in x.get_generating_symbols())
        if n == "nullable":
            return sorted(str(s) for s in x.get_nullable_symbols())
        if n == "reachable":
            return sorted(str(s) for s in x.get_reachable_symbols())
        if n == "normal_form":
            nf = x.to_normal_form()
            return [nf.contains(v) for v in WORDS[1:]]
        if n == "remove_epsilon":
            return g_canon(x.remove_epsilon())
        if n == "words":
            return sorted(tuple(t.value for t in v) for v in x.get_words(3))
        if n == "is_finite":
            return x.is_finite()
        if n == "union":
            u = x.union(y)
            return [u.contains(v) for v in WORDS]
        if n == "intersection_fa":
            i = x.intersection(objs["fa%d" % op["b"]])
            return [i.contains(v) for v in WORDS]
        if n == "intersection_regex":
            i = x.intersection(objs["r%d" % op["b"]])
            return [i.contains(v) for v in WORDS]
        if n == "to_pda":
            return p_canon(x.to_pda())
        if n == "shared_intersection":
            # a second grammar built from the same Variable / Terminal / Production objects
            from pyformlang.cfg import CFG
            prods = list(x.productions)
            shared = CFG(start_symbol=x.start_symbol, productions=set(prods[:max(1, len(prods) - 1)]))
            i = shared.intersection(objs["fa%d" % op["b"]])
            return [i.contains(v) for v in WORDS]
    if k == "r":
        x, y = objs["r%d" % op["a"]], objs["r%d" % op["b"]]
        if n == "accepts":
            return x.accepts(w)
        if n == "to_enfa":
            e = x.to_epsilon_nfa()
            return [e.accepts(v) for v in WORDS]
        if n == "union":
            u = x.union(y)
            return [u.accepts(v) for v in WORDS]
        if n == "concatenate":
            u = x.concatenate(y)
            return [u.accepts(v) for v in WORDS]
        if n == "star":
            u = x.kleene_star()
            return [u.accepts(v) for v in WORDS]
        if n == "str":
            return str(x)
        if n == "to_cfg":
            c = x.to_cfg()
            return [c.contains(v) for v in WORDS]
        if n == "mutate_enfa":
            e = x.to_epsilon_nfa()
            res = [e.accepts(v) for v in WORDS]
            # mutate the returned automaton: must not change what the regex answers afterwards
            for s in list(e.states):
                e.add_final_state(s)
            for s in list(e.start_states):
                e.add_transition(s, "a", s)
            return res
    if k == "p":
        x = objs["p0"]
        if n == "to_cfg":
            c = x.to_cfg()
            return [c.contains(v) for v in WORDS]
        if n == "to_final_state":
            return p_canon(x.to_final_state())
        if n == "to_empty_stack":
            return p_canon(x.to_empty_stack())
        if n == "intersection_fa":
            return p_canon(x.intersection(objs["fa%d" % op["b"]]))
    if k == "t":
        x = objs["t0"]
        if n == "translate":
            import itertools
            return sorted(tuple(o) for o in itertools.islice(x.translate(list(w)), 2000))
        if n == "star":
            s = x.kleene_star()
            import itertools
            # the star of a transducer with output-writing epsilon moves has infinitely many outputs: cap
            return sorted(tuple(o) for o in itertools.islice(s.translate(list(w)), 2000))
        if n == "union_self":
            u = x.union(x)
            import itertools
            return sorted(set(tuple(o) for o in itertools.islice(u.translate(list(w)), 2000)))
    if k == "i":
        x = objs["i0"]
        if n == "is_empty":
            return x.is_empty()
        if n == "remove_useless":
            return x.remove_useless_rules().is_empty()
    raise ValueError(op)


def run_case(case, drv):
    res = CaseResult()
    if "gh" in case:
        c19obj.run_history(case["gh"], drv, res)
        return res
    if "fah" in case:
        c19fa.run_history(case["fah"], drv, res)
        return res
    if "fo" in case:
        c19fao.run_history(case["fo"], drv, res)
        return res
    if "so" in case:
        c19fso.run_history(case["so"], drv, res)
        return res
    if "po" in case:
        c19pdo.run_history(case["po"], drv, res)
        return res
    if "rh" in case:
        c19rx.run_history(case["rh"], drv, res)
        return res
    specs, ops = case["pool"], case["ops"]
    kinds = {o["kind"] for o in ops}
    res.nontrivial = len(ops) >= 8 and len(kinds) >= 3
    st, live = outcome(lambda: build_pool(specs), limit=10.0)
    if st != "ok":
        res.tag("build_fail")
        return res
    st, snap0 = outcome(lambda: snapshot(live), limit=10.0)
    if st != "ok":
        res.tag("snapshot_fail")
        return res
    for idx, op in enumerate(ops):
        got = outcome(lambda: apply(live, op, None), limit=8.0, retry=False)   # some operations legitimately diverge (FST star with writing cycles)
        st, fresh_objs = outcome(lambda: build_pool(specs), limit=10.0)
        want = outcome(lambda: apply(fresh_objs, op, None), limit=8.0, retry=False)
        res.evals += 1
        if got[0] == "timeout" or want[0] == "timeout":
            res.tag("timeout")
            return res
        scope = []
        if op["kind"] == "r" or op["name"] == "intersection_regex":
            scope.append("regex_cache")
        if got != want:
            res.violation("%s.%s" % (op["kind"], op["name"]), "answer depends on the call history",
                          detail={"step": idx, "op": op, "with_history": str(got)[:300], "fresh": str(want)[:300],
                                  "history": ops[:idx + 1]}, scope=scope)
            return res
        st, snap = outcome(lambda: snapshot(live), limit=10.0)
        res.evals += 1
        if st == "ok" and snap != snap0:
            changed = [k for k in snap if snap[k] != snap0[k]]
            res.violation("%s.%s" % (op["kind"], op["name"]), "operation changed the structure of its operands",
                          detail={"step": idx, "op": op, "changed": changed})
            return res
        # hidden state behind the answers: the cached counter tables of the grammars must be the
        # tables of a fresh grammar after every call (Lean: genCounters_restores)
        if op["kind"] == "g" and op["name"] in ("generating", "nullable", "is_empty", "contains", "normal_form",
                                                 "remove_epsilon", "is_finite", "words"):
            st, _ = outcome(lambda: G.counter_tie(live["g%d" % op["a"]], drv, res,
                                                  op="g.%s" % op["name"]), limit=8.0)
    return res
