"""C03 - Boolean and rational operations on automata compute the set-theoretic result."""
from .. import fa as F
from ..core import CaseResult, outcome

ID = "C03"
RULE = ("random ordered pairs of epsilon-NFA/NFA/DFA specs (0-4 states, shared 1-3 symbol pool with "
        "overlapping or disjoint alphabets, state names colliding across operands, adversarial names); each "
        "case runs get_intersection/&, get_complement/unary -, get_difference/-, reverse/~, union, "
        "concatenate, kleene_star; results are compared structurally with the Lean model (intersection, "
        "complement, difference, reverse) and by exact language equivalence with verified reference "
        "constructions (all seven). Non-trivial: first operand has >=2 states, >=2 transitions, a start and "
        "a final state.")
THEOREMS = ["Pfl.ENFA.inter_isSome",
            "Pfl.ENFA.inter_total",
            "Pfl.ENFA.unionR_lang",
            "Pfl.ENFA.concatR_lang",
            "Pfl.ENFA.starR_lang",
            "Pfl.ENFA.inter_lang",
            "Pfl.ENFA.mapStates_lang",
            "Pfl.ENFA.reverse_lang",
            "Pfl.ENFA.complementRaw_lang",
            "Pfl.ENFA.complementRaw_lang_dfa",
            "Pfl.ENFA.toDet_lang",
            "Pfl.ENFA.toDet_shape",
            "Pfl.ENFA.unionA_lang",
            "Pfl.ENFA.concatA_lang",
            "Pfl.ENFA.starA_lang",
            "Pfl.ENFA.canonS_keyInj",
            "Pfl.ENFA.complementRef_lang",
            "Pfl.ENFA.complementRef_wf",
            "Pfl.ENFA.inter_wf",
            "Pfl.ENFA.reverse_wf",
            "Pfl.ENFA.unionA_wf",
            "Pfl.ENFA.concatA_wf",
            "Pfl.ENFA.starA_wf",
            "Pfl.ENFA.addSyms_lang",
            "Pfl.ENFA.addSyms_wf",
            "Pfl.ENFA.langDiff_none_iff",
            "Pfl.ENFA.langDiff_some",
            "Pfl.Names.pairName_inj",
            "Pfl.Names.pairName_not_inj"]

TRASH = "TrashNode"


def generate(rng, tier):
    while True:
        pool = rng.choice(["int", "str", "str", "adv"])
        a = F.gen_fa(rng, max_states=(5 if tier == "thorough" and rng.random() < 0.25 else 4), pool=pool)
        b = F.gen_fa(rng, max_states=4, pool=rng.choice([pool, "int", "str"]))
        if rng.random() < 0.12:
            # both operands named like outputs of to_deterministic() / minimize() over the same underlying states
            a = F.gen_fa(rng, max_states=4, pool="subsets")
            b = F.gen_fa(rng, max_states=4, pool="subsets")
        for x in (a, b):   # union/concatenate/kleene_star go through regex text: plain string symbols
            x["symvals"] = F.PLAIN_SYMS[:len(x["symvals"])]
        # alphabets: same pool of symbol values, possibly only partly overlapping
        if rng.random() < 0.3:
            b["symvals"] = list(reversed(F.PLAIN_SYMS))[:len(b["symvals"])]
        yield {"a": a, "b": b}


def trash_code(scodes):
    """the trash state is always a fresh state: the next free code"""
    return len(scodes.values)


def pair_scope(sa, sb):
    tags = []
    strs_a, strs_b = [str(v) for v in sa], [str(v) for v in sb]
    if any(";" in x for x in strs_a + strs_b) or len(set(strs_a)) != len(strs_a) \
            or len(set(strs_b)) != len(strs_b):
        tags.append("unclean_pair_names")
    return tags


def inter_scope(sa, sb):
    """get_intersection names the pair (x, y) `str(x) + "; " + str(y)`: the naming defect (KF-C03-1) can only show
    when that map is not injective on the two state sets - any other failure is not the known finding"""
    # state values equal as Python values are one state (1 and "1" are two)
    names = [str(x) + "; " + str(y) for x in dict.fromkeys(sa) for y in dict.fromkeys(sb)]
    return ["unclean_pair_names"] if len(set(names)) != len(names) else []


def exhaustive(tier):
    """all ordered pairs of one-state automata over one symbol, and of two-state NFAs with one-state automata"""
    if tier != "thorough":
        return
    ones = list(F.enumerate_fa(1, 1, "E"))
    for a in ones:
        for b in ones:
            yield {"a": a, "b": b}
    twos = list(F.enumerate_fa(2, 1, "N"))
    for a in twos:
        for b in ones:
            yield {"a": a, "b": b}
            yield {"a": b, "b": a}


def run_case(case, drv):
    res = CaseResult()
    sa, sb = case["a"], case["b"]
    st, fa = outcome(lambda: F.build(sa))
    st2, fb = outcome(lambda: F.build(sb))
    if st != "ok" or st2 != "ok":
        res.tag("build_fail")
        return res
    # one symbol table for both operands (symbols are compared by value)
    ycodes = F.Codes(list(sa["symvals"]))
    ca, cb = F.Codes(sa["svals"]), F.Codes(sb["svals"])
    A, B = F.extract(fa, ca, ycodes), F.extract(fb, cb, ycodes)
    na, nb = [str(v) for v in ca.values], [str(v) for v in cb.values]
    res.nontrivial = F.is_nontrivial(sa)
    res.tag("cls_%s%s" % (sa["cls"], sb["cls"]))
    clean_a, clean_b = F.names_clean(sa["svals"]), F.names_clean(sb["svals"])

    clean_objs = {}

    def clean_retry(kind):
        """the same operation on injectively renamed operands (clean state names): is its language right?
        With colliding names the implementation's result depends on set-iteration order, which the
        bug-compatible model cannot always follow; a failure that disappears under renaming is the naming
        defect (KF-C03-*), one that stays is something else."""
        if not clean_objs:
            ka, kb = dict(sa), dict(sb)
            ka["svals"] = ["qa%d" % i for i in range(len(sa["svals"]))]
            kb["svals"] = ["qb%d" % i for i in range(len(sb["svals"]))]
            clean_objs["a"], clean_objs["b"] = F.build(ka), F.build(kb)
        xa, xb = clean_objs["a"], clean_objs["b"]
        fn = {"inter": lambda: xa.get_intersection(xb), "complement": xa.get_complement,
              "difference": lambda: xa.get_difference(xb)}.get(kind)
        if fn is None:
            return False
        st_, R_ = outcome(fn)
        if st_ != "ok":
            return False
        kw_ = {"B": B} if kind in ("inter", "difference") else {}
        d_ = drv.call("fa.langop", kind=kind, A=A, R=F.renumber(F.extract_named(R_, ycodes)), **kw_)
        return bool(d_["equiv"])

    def langop(op, kind, R, scope, agrees, **kw):
        res.evals += 1
        d = drv.call("fa.langop", kind=kind, A=A, R=F.renumber(R), **kw)
        if not d["equiv"]:
            detail = {"word": d["word"]}
            if scope and not agrees and clean_retry(kind):
                agrees = True
                detail["attribution"] = "correct on injectively renamed operands: name collision only"
                res.tag("attributed_by_renaming")
            res.violation(op, "language of the result is not the %s of the operand languages" % kind,
                          detail=detail, scope=scope, model_agrees=agrees)
            return False
        return True

    # ---- intersection -----------------------------------------------------------------
    for opname, f in (("get_intersection", lambda: fa.get_intersection(fb)), ("&", lambda: fa & fb)):
        st, R = outcome(f)
        scope = inter_scope(sa["svals"], sb["svals"])
        if st != "ok":
            res.violation(opname, "raised %s" % R, scope=scope)
            continue
        Rx = F.extract_named(R, ycodes)
        M = drv.call("fa.inter", A=A, B=B, namesA=na, namesB=nb)
        res.corr += 1
        diff = F.same(Rx, M)
        ok = langop(opname, "inter", Rx, scope, not diff, B=B)
        if diff and ok:
            if scope:
                res.tag("structure_differs_under_colliding_names")
            else:
                res.corr_break(opname, "structure differs from model: %s" % diff, detail={"impl": Rx, "model": M})
    # ---- complement -------------------------------------------------------------------
    for opname, f in (("get_complement", fa.get_complement), ("neg", lambda: -fa)):
        st, R = outcome(f)
        scope = []
        tc = trash_code(ca)
        M = drv.call("fa.complement", A=A, cls=sa["cls"], names=na, trash=tc)
        if not M["det"] and not clean_a:
            scope.append("unclean_names")
        if st != "ok":
            res.violation(opname, "raised %s" % R, scope=scope)
            continue
        if M["det"]:
            ccodes = F.Codes([(v if not (isinstance(v, str) and v == M["trashName"]) else object())
                              for v in ca.values])   # a spec value not in the automaton is not the trash
            ccodes.values.append(M["trashName"])
            Rx = F.extract(R, ccodes, ycodes)
        else:
            Rx = F.extract_named(R, ycodes)
        res.corr += 1
        diff = F.same(Rx, M["fa"])
        ok = langop(opname, "complement", Rx, scope, not diff)
        if diff and ok:
            if scope:
                res.tag("structure_differs_under_colliding_names")   # order-dependent merging, see clean_retry
            else:
                res.corr_break(opname, "structure differs from model: %s" % diff,
                detail={"impl": Rx, "model": M["fa"]})
    # ---- difference -------------------------------------------------------------------
    for opname, f in (("get_difference", lambda: fa.get_difference(fb)), ("-", lambda: fa - fb)):
        st, R = outcome(f)
        scope = pair_scope(sa["svals"], sb["svals"])
        if not clean_b:
            scope.append("unclean_names")
        if st != "ok":
            res.violation(opname, "raised %s" % R, scope=scope)
            continue
        Rx = F.extract_named(R, ycodes)
        tc = trash_code(cb)
        M = drv.call("fa.difference", A=A, B=B, clsB=sb["cls"], namesA=na, namesB=nb, trash=tc)
        res.corr += 1
        diff = F.same(Rx, M)
        ok = langop(opname, "difference", Rx, scope, not diff, B=B)
        if diff and ok:
            if scope:
                res.tag("structure_differs_under_colliding_names")
            else:
                res.corr_break(opname, "structure differs from model: %s" % diff, detail={"impl": Rx, "model": M})
    # ---- reverse ------------------------------------------------------------------------
    for opname, f in (("reverse", fa.reverse), ("~", lambda: ~fa)):
        st, R = outcome(f)
        if st != "ok":
            res.violation(opname, "raised %s" % R)
            continue
        Rx = F.extract(R, ca, ycodes)
        M = drv.call("fa.reverse", A=A)
        res.corr += 1
        diff = F.same(Rx, M)
        ok = langop(opname, "reverse", Rx, [], not diff)
        if diff and ok:
            res.corr_break(opname, "structure differs from model: %s" % diff, detail={"impl": Rx, "model": M})
    # ---- union / concatenate / kleene_star (through regular expressions) ----------------------
    multi = []
    if len(A["starts"]) > 1:
        multi.append("multi_start")
    multi_b = multi + (["multi_start"] if len(B["starts"]) > 1 and not multi else [])
    for opname, kind, f, scope, kw in (
            ("union", "union", lambda: fa.union(fb), multi_b, {"B": B}),
            ("concatenate", "concat", lambda: fa.concatenate(fb), multi_b, {"B": B}),
            ("kleene_star", "star", fa.kleene_star, multi, {})):
        if len(A["delta"]) > 7 or (kw and len(B["delta"]) > 7):
            res.tag("regop_skipped_dense")
            continue
        st, R = outcome(f, limit=3.0)
        if st == "timeout":
            res.tag("regop_timeout")
            continue
        if st != "ok":
            res.violation(opname, "raised %s" % R, scope=scope, detail={"exc": R})
            continue
        st, Rx = outcome(lambda R=R: F.extract(R, F.Codes([]), ycodes))
        if st != "ok":
            res.violation(opname, "result uses symbols outside the operand alphabets", scope=scope)
            continue
        if len(Rx["states"]) > 80:
            res.tag("regop_skipped_big_result")
            continue
        langop(opname, kind, Rx, scope, False, **kw)
    return res
