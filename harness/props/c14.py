"""C14 - LL(1): FIRST / FOLLOW, the LL(1) verdict and the table-driven parser."""
from pyformlang.cfg import Variable, Terminal, Epsilon
from pyformlang.cfg.llone_parser import LLOneParser
from .. import cfgdom as G
from ..core import CaseResult, outcome

ID = "C14"
RULE = ("random context-free grammars restricted to useful symbols (the library's own remove_useless_symbols is applied "
        "and the result re-checked by the oracle), biased towards nullable variables, nullable non-empty bodies, "
        "common prefixes and left recursion; get_first_set / get_follow_set / is_llone_parsable are compared with the "
        "textbook sets computed by saturation in Lean; for LL(1) grammars get_llone_parse_tree is run on all words of "
        "length <=4, on proper prefixes and one-symbol extensions of members: tree exactly for members (validated by "
        "the tree checker and compared with the reference LL(1) parse), NotParsableException otherwise. Non-trivial: "
        ">=2 productions, one with a body of length >=2.")
LEVEL = "proof"
THEOREMS = ["Pfl.LL1Lib.parse_isSome",
            "Pfl.LL1Lib.parse_no_start",
            "Pfl.LL1Lib.parse_total",
            "Pfl.LL1Lib.steps_double",
            "Pfl.LL1Lib.firstSet_isSome",
            "Pfl.LL1Lib.followSet_isSome",
            "Pfl.LL1Lib.isLLOne_isSome",
            "Pfl.LL1Lib.firstSet_linear_bound_false",
            "Pfl.LL1Lib.firstSet_spec",
            "Pfl.LL1Lib.firstSet_ter",
            "Pfl.LL1Lib.followSet_spec",
            "Pfl.LL1Lib.table_spec",
            "Pfl.LL1Lib.isLLOne_iff",
            "Pfl.LL1Lib.parse_valid",
            "Pfl.CFG.mem_firstSets_iff",
            "Pfl.CFG.mem_followSets_iff",
            "Pfl.CFG.mem_followSets_iff_counterexample",
            "Pfl.CFG.llParse_valid",
            "Pfl.CFG.treeValid_sound",
            "Pfl.CFG.cfgMem_iff",
            "Pfl.CFG.mem_nullable_iff",
            "Pfl.CFG.mem_generating_iff",
            "Pfl.CFG.mem_reachable_iff"]


def generate(rng, tier):
    while True:
        spec = G.gen_cfg(rng, max_vars=4, max_prods=7, adversarial=False)
        spec["as_list"] = False
        if rng.random() < 0.5:
            # favour LL(1)-looking grammars: distinct leading terminals, nullable tails
            vs = ["S", "A", "B"][:rng.randint(2, 3)]
            prods = []
            for v in vs:
                ts = G.TERS[:]
                rng.shuffle(ts)
                for t in ts[:rng.randint(1, 2)]:
                    body = [["t", t]] + [["v", rng.choice(vs)] for _ in range(rng.randint(0, 2))]
                    prods.append([v, body])
                if rng.random() < 0.5:
                    prods.append([v, []])
                if rng.random() < 0.3:
                    prods.append([v, [["v", rng.choice(vs)], ["v", rng.choice(vs)]]])
            spec = {"vars": [], "ters": [], "start": "S", "prods": prods, "as_list": False}
        elif rng.random() < 0.2:
            # (hidden) left recursion through a variable that is nullable only via other variables: FIRST of the
            # recursive variable grows after it became nullable, whatever the order of the productions
            n_eps = rng.random() < 0.8
            prods = [["S", [["v", "X"], ["v", "A"]]], ["X", [["t", "a"]]],
                     ["A", ([["v", "N"]] if rng.random() < 0.3 else []) + [["v", "A"], ["t", "b"]]],
                     ["A", [["v", "N"]] + ([["v", "N"]] if rng.random() < 0.3 else [])],
                     ["N", [["t", "c"]]]] + ([["N", []]] if n_eps else [])
            rng.shuffle(prods)
            spec = {"vars": [], "ters": [], "start": "S", "prods": prods, "as_list": rng.random() < 0.5}
        if rng.random() < 0.03:
            spec["start"] = None          # a grammar without start symbol: every parser refuses every word
        yield {"g": spec}


def tree_json(t):
    v = t.value
    if isinstance(v, Variable):
        k = "v"
    elif isinstance(v, Terminal):
        k = "t"
    else:
        raise TypeError("tree node value %r" % (v,))
    return [k, v.value, [tree_json(s) for s in t.sons]]


def jlook(x):
    if isinstance(x, Epsilon):
        return ["eps"]
    if isinstance(x, str):
        return [x]
    return ["t", x.value]


def lib_tie(cfg, drv, res, words):
    """step-faithful tie: the worklists of get_first_set / get_follow_set, the table and the stack parser
    against Pfl/Model/LL1Lib.lean, on any grammar (useful symbols or not)"""
    g = G.extract(cfg)
    if cfg.start_symbol is None:
        res.tag("lib_tie_nostart")
        return
    parser = LLOneParser(cfg)
    got = {"first": outcome(parser.get_first_set), "follow": outcome(parser.get_follow_set),
           "table": outcome(parser.get_llone_parsing_table), "is": outcome(parser.is_llone_parsable)}
    if any(v[0] != "ok" for v in got.values()):
        res.tag("lib_tie_exc")
        return
    m = drv.call("cfg.ll1lib", G=g, words=words)
    res.corr += 4

    def dset(pairs, key):
        return {key(k): sorted(map(tuple, v)) for k, v in pairs}
    impl_first = {tuple(G.xsym(k)): sorted(tuple(jlook(x)) for x in v) for k, v in got["first"][1].items()}
    if impl_first != dset(m["first"], tuple):
        res.corr_break("get_first_set", "dict differs from the faithful worklist model",
                       detail={"impl": str(impl_first), "model": m["first"]})
    impl_follow = {tuple(G.xsym(k)): sorted(tuple(jlook(x)) for x in v) for k, v in got["follow"][1].items()}
    if impl_follow != dset(m["follow"], lambda k: tuple(k) if k is not None else None):
        res.corr_break("get_follow_set", "dict differs from the faithful worklist model",
                       detail={"impl": str(impl_follow), "model": m["follow"]})
    impl_table = sorted((h.value, tuple(jlook(a)), (p.head.value, tuple(tuple(G.xsym(x)) for x in p.body)))
                        for h, row in got["table"][1].items() for a, ps in row.items() for p in ps)
    model_table = sorted((h, tuple(a), (pr[0], tuple(tuple(x) for x in pr[1]))) for h, a, pr in m["table"])
    if impl_table != model_table:
        res.corr_break("get_llone_parsing_table", "table differs from the faithful model",
                       detail={"impl": str(impl_table), "model": str(model_table)})
    if got["is"][1] != m["isLLOne"]:
        res.corr_break("is_llone_parsable", "verdict differs from the faithful model",
                       detail={"impl": got["is"][1], "model": m["isLLOne"]})
    for w, mt in zip(words, m["parse"]):
        r = outcome(lambda w=w: tree_json(parser.get_llone_parse_tree(w)), limit=3.0)
        res.corr += 1
        if mt == "fuel" or r[0] == "timeout":
            continue
        want = ("exc", "NotParsableException") if mt is None else ("ok", mt)
        if r != want:
            res.corr_break("get_llone_parse_tree", "result differs from the faithful stack-machine model",
                           detail={"word": w, "impl": str(r), "model": mt})
            break
    res.tag("lib_tie")


def run_case(case, drv):
    res = CaseResult()
    st, cfg0 = outcome(lambda: G.build(case["g"]))
    if st != "ok":
        return res
    ters0 = sorted({t.value for t in cfg0.terminals})[:3]
    lib_tie(cfg0, drv, res, G.words_upto(ters0, 2) + [["zz"]])
    st, cfg = outcome(cfg0.remove_useless_symbols)
    if st != "ok" or not cfg.productions:
        res.tag("empty_after_cleanup")
        return res
    g = G.extract(cfg)
    cl = drv.call("cfg.classes", G=g)
    useful = {tuple(s) for s in cl["generating"]} & {tuple(s) for s in cl["reachable"]}
    if any(("v", v) not in useful for v in g["vars"]):
        res.tag("not_useful")
        return res
    res.nontrivial = G.is_nontrivial({"prods": g["prods"]})
    ref = drv.call("cfg.ll1", G=g)
    parser = LLOneParser(cfg)
    # FIRST
    got = outcome(parser.get_first_set)
    res.evals += 1
    res.corr += 1
    want_first = {}
    for v, t in ref["first"]:
        want_first.setdefault(v, set()).add(t)
    nul = {s[1] for s in ref["nullable"]}
    if got[0] != "ok":
        res.violation("get_first_set", "raised %s" % got[1])
    else:
        fs = got[1]
        for v in g["vars"]:
            impl = {("ε" if isinstance(x, Epsilon) else x.value) for x in fs.get(Variable(v), set())}
            want = set(want_first.get(v, set())) | ({"ε"} if v in nul else set())
            if impl != want:
                res.violation("get_first_set", "FIRST(%s) differs from the textbook set" % v,
                              detail={"impl": sorted(impl), "spec": sorted(want)})
                break
    # FOLLOW
    got = outcome(parser.get_follow_set)
    res.evals += 1
    res.corr += 1
    want_follow = {}
    for v, t in ref["follow"]:
        want_follow.setdefault(v, set()).add("$" if t is None else t)
    if got[0] != "ok":
        res.violation("get_follow_set", "raised %s" % got[1])
    else:
        fo = got[1]
        for v in g["vars"]:
            impl = {(x if isinstance(x, str) else x.value) for x in fo.get(Variable(v), set())}
            want = want_follow.get(v, set())
            if impl != want:
                res.violation("get_follow_set", "FOLLOW(%s) differs from the textbook set" % v,
                              detail={"impl": sorted(impl), "spec": sorted(want)})
                break
    # LL(1) verdict
    got = outcome(parser.is_llone_parsable)
    res.evals += 1
    res.tag("ll1_%s" % ref["isLL1"])
    if got != ("ok", ref["isLL1"]):
        res.violation("is_llone_parsable", "verdict differs from the LL(1) condition",
                      detail={"impl": got, "spec": ref["isLL1"]})
    if not ref["isLL1"]:
        return res
    # parser on members / non-members
    ters = sorted(set(g["ters"]))
    words = G.words_upto(ters, 3 if len(ters) > 2 else 4)
    mem = drv.call("cfg.member", G=g, words=words)
    reft = drv.call("cfg.llParse", G=g, words=words)
    members = [w for w, m in zip(words, mem) if m]
    extra = []
    for w in members[:6]:
        for t in ters[:2]:
            extra.append(w + [t])
        extra.append(w + ["zz"])
    mem2 = drv.call("cfg.member", G=g, words=extra) if extra else []
    reft2 = drv.call("cfg.llParse", G=g, words=extra) if extra else []
    for w, m, rt in list(zip(words, mem, reft)) + list(zip(extra, mem2, reft2)):
        got = outcome(lambda w=w: tree_json(parser.get_llone_parse_tree(w)), limit=3.0)
        res.evals += 1
        if m is None:
            continue
        if m:
            if got[0] != "ok":
                res.violation("get_llone_parse_tree", "member of an LL(1) grammar is not parsed: %s" % (got,),
                              detail={"word": w})
                break
            ok = drv.call("cfg.treeValid", G=g, tree=got[1], word=w)
            if not ok:
                res.violation("get_llone_parse_tree", "returned tree is not a parse tree of the word",
                              detail={"word": w, "tree": got[1]})
                break
            res.corr += 1
            if rt is not None and got[1] != rt:
                res.corr_break("get_llone_parse_tree", "tree differs from the reference LL(1) parse",
                               detail={"word": w, "impl": got[1], "ref": rt})
        else:
            if got != ("exc", "NotParsableException"):
                res.violation("get_llone_parse_tree", "non-member is not refused with NotParsableException",
                              detail={"word": w, "impl": got if got[0] != "ok" else "tree"})
                break
    return res
