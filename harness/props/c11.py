"""C11 - intersection of a CFG / PDA with a regular language is exact."""
from pyformlang.regular_expression import Regex
from pyformlang.finite_automaton import Symbol
from .. import cfgdom as G
from .. import pdadom as P
from .. import fa as F
from ..core import CaseResult, outcome

ID = "C11"
RULE = ("random (grammar | PDA) x (regex | DFA | NFA | epsilon-NFA) pairs over partly overlapping alphabets, empty "
        "languages and epsilon on either side; cfg.intersection(r) is decided word by word (all words of length <=3/4) "
        "by the verified CFG-membership and automaton-membership oracles; pda.intersection(r) is compared structurally "
        "with the Lean product model and word by word through the exact PDA-acceptance oracle (final-state mode); "
        "other operand types must raise NotImplementedError. Non-trivial: grammar with >=2 productions one of length "
        ">=2 and an automaton with >=2 states.")
LEVEL = "proof"
_CONVERTERS = []


def _install_converter_probe():
    """in-process observation (no source hook): remember the triple-variable converter that
    cfg.intersection creates, so that its running-counter variables can be decoded"""
    import pyformlang.cfg.cfg as cfgmod
    orig = cfgmod.cvc.CFGVariableConverter
    if getattr(orig, "_verif_probe", False):
        return

    class Probe(orig):
        _verif_probe = True

        def __init__(self, *a, **k):
            super().__init__(*a, **k)
            _CONVERTERS.append(self)
    cfgmod.cvc.CFGVariableConverter = Probe


def decode_inter(conv, I):
    inv_s = {i: s for s, i in conv._inverse_states_d.items()}            # pylint: disable=protected-access
    inv_x = {i: s for s, i in conv._inverse_stack_symbol_d.items()}     # pylint: disable=protected-access
    names = {}
    for i, plane in enumerate(conv._conversions):                         # pylint: disable=protected-access
        for j, row in enumerate(plane):
            for k, (_, var) in enumerate(row):
                if var is not None:
                    names[var.value] = "[%s|%s|%s]" % (inv_s[i].value, inv_x[j].value, inv_s[k].value)
    ren = lambda v: names.get(v, v if isinstance(v, str) else "?%r" % (v,))  # noqa: E731
    return {"vars": [ren(v.value) for v in I.variables], "ters": [t.value for t in I.terminals],
            "start": ren(I.start_symbol.value) if I.start_symbol is not None else None,
            "prods": [[ren(p.head.value), [["v", ren(x.value)] if G.xsym(x)[0] == "v" else ["t", x.value]
                                           for x in p.body]] for p in I.productions]}


THEOREMS = ["Pfl.PDA.inter_total",
            "Pfl.CFG.interD_isSome",
            "Pfl.PDA.interRegex_lang",
            "Pfl.CFG.interRegex_lang",
            "Pfl.CFG.interD_lang",
            "Pfl.PDA.inter_lang",
            "Pfl.PDA.accFinal_iff",
            "Pfl.PDA.accEmpty_iff",
            "Pfl.CFG.cfgMem_iff",
            "Pfl.ENFA.member_iff",
            "Pfl.CFG.toNormalForm_lang"]
REGEXES = ["a", "a b", "a*", "(a|b)*", "a b*", "(a b)*", "a|b", "$", "", "(a|$) b", "a* b*", "b a*", "(a a)*|b",
           "a c*", "(a|b|c)*", "c", "a (b|c)* a", "(a* b)*"]


def generate(rng, tier):
    while True:
        kind = rng.choice(["regex", "fa", "fa", "fa"])
        r = {"kind": kind}
        if kind == "regex":
            r["text"] = rng.choice(REGEXES)
        else:
            spec = F.gen_fa(rng, max_states=3, pool=rng.choice(["int", "str"]))
            spec["symvals"] = ["a", "b", "c"][:len(spec["symvals"])]
            r["fa"] = spec
        pspec = P.gen_pda(rng, adversarial=False)
        pedit = []
        if pspec["delta"] and rng.random() < 0.35:
            # transitions added to the same PDA object after a first intersection: one on an existing
            # (state, symbol, stack top) key with another outcome, possibly one on a new key
            q, a, x, _q2, _push = rng.choice(pspec["delta"])
            pedit.append([q, a, x, rng.choice(pspec["states"]),
                          [rng.choice(pspec["stack"]) for _ in range(rng.choice([0, 1, 2]))]])
            if rng.random() < 0.4:
                pedit.append([rng.choice(pspec["states"]), rng.choice(pspec["inputs"] + [None]), rng.choice(pspec["stack"]),
                              rng.choice(pspec["states"]), [rng.choice(pspec["stack"])]])
        yield {"g": G.gen_cfg(rng, max_vars=3, max_prods=5, adversarial=False), "p": pspec, "pedit": pedit, "r": r}


def run_case(case, drv):
    res = CaseResult()
    rspec = case["r"]
    if rspec["kind"] == "regex":
        st, robj = outcome(lambda: Regex(rspec["text"]))
        if st != "ok":
            return res
        fa_for_lang = robj.to_epsilon_nfa()
    else:
        st, robj = outcome(lambda: F.build(rspec["fa"]))
        if st != "ok":
            return res
        fa_for_lang = robj
    ycodes = F.Codes(["a", "b", "c"])
    scodes = F.Codes([])
    R = F.extract(fa_for_lang, scodes, ycodes)
    symnames = [str(v) for v in ycodes.values]
    res.tag("r_" + rspec["kind"] + ("_" + rspec["fa"]["cls"] if rspec["kind"] == "fa" else ""))

    # ---- CFG ∩ R ---------------------------------------------------------------------------------
    st, cfg = outcome(lambda: G.build(case["g"]))
    if st == "ok":
        g = G.extract(cfg)
        res.nontrivial = G.is_nontrivial(case["g"]) and len(R["states"]) >= 2
        ters = sorted(set(g["ters"]) | {s for s in symnames if any(t[1] == symnames.index(s) for t in R["delta"])})
        ters = [t for t in ters if isinstance(t, str)][:3]
        words = G.words_upto(ters, 3 if len(ters) > 2 else 4)
        _install_converter_probe()
        del _CONVERTERS[:]
        st, I = outcome(lambda: cfg.intersection(robj), limit=10.0)
        if st == "ok" and rspec["kind"] == "fa" and _CONVERTERS and outcome(robj.is_deterministic) == ("ok", True) \
                and all(isinstance(v, str) for v in g["vars"]) \
                and not any(len(b) > 2 for _, b in g["prods"]):   # C#CNF#k numbering depends on set order
            # structural correspondence with the Bar-Hillel model (operand used as is)
            try:
                dec = decode_inter(_CONVERTERS[-1], I)
            except Exception:  # pylint: disable=broad-except
                dec = None
            if dec is not None:
                M = drv.call("cfg.interD", G=g, D=R, symNames=symnames, stateNames=[str(v) for v in scodes.values])
                if M is not None:
                    res.corr += 1
                    base = drv.call("cfg.transform", G=g, kind="cnfBase")
                    keep = base["vars"] if base is not None else g["vars"]
                    diff = G.same(G.canon_cnf_names(dec, keep), G.canon_cnf_names(M, keep), ("start", "prods"))
                    if diff:
                        res.corr_break("cfg.intersection", "structure differs from the Bar-Hillel model: %s" % diff,
                                       detail={"impl": dec["prods"][:12], "model": M["prods"][:12]})
        if st != "ok":
            res.violation("cfg.intersection", "raised / hung: %s" % (I if st == "exc" else st),
                          detail={"outcome": [st, I]})
        else:
            st, ig = outcome(lambda: {
                "vars": [str(v.value) for v in I.variables], "ters": [t.value for t in I.terminals],
                "start": str(I.start_symbol.value) if I.start_symbol is not None else None,
                "prods": [[str(q.head.value), [["v", str(x.value)] if G.xsym(x)[0] == "v" else ["t", x.value]
                                               for x in q.body]] for q in I.productions]})
            mem_g = drv.call("cfg.member", G=g, words=words)
            codes = [[symnames.index(a) if a in symnames else 99 for a in w] for w in words]
            mem_r = drv.call("fa.member", A=R, words=codes)
            mem_i = drv.call("cfg.member", G=ig, words=words) if st == "ok" else None
            if mem_i is not None:
                for w, a, b, c in zip(words, mem_i, mem_g, mem_r):
                    res.evals += 1
                    if a is None or b is None:
                        continue
                    if a != (b and c):
                        res.violation("cfg.intersection", "result differs from (generated by the grammar and accepted by r)",
                                      detail={"word": w, "result": a, "grammar": b, "regular": c})
                        break
            got = outcome(lambda: I.contains([]) if True else None, limit=5.0)
        st, _ = outcome(lambda: cfg.intersection(42))
        res.evals += 1
        if (st, _) != ("exc", "NotImplementedError"):
            res.violation("cfg.intersection", "operand of another type does not raise NotImplementedError",
                          detail={"outcome": [st, _]})
    # ---- PDA ∩ R ---------------------------------------------------------------------------------
    st, pda = outcome(lambda: P.build(case["p"]))
    if st == "ok":
        rounds = [None] + ([case["pedit"]] if case.get("pedit") else [])
        for edit in rounds:
            if edit is not None:
                # the same object, extended through the public API after the first intersection
                st_e, _e = outcome(lambda: [pda.add_transition(q, P.PEps() if a is None else a, x, q2, push)
                                            for q, a, x, q2, push in edit])
                if st_e != "ok":
                    break
                res.tag("pda_edited_between_intersections")
            p = P.extract(pda)
            inputs = sorted(set(p["inputs"]))
            words = G.words_upto(inputs, 3)
            st, I = outcome(lambda: pda.intersection(robj), limit=10.0)
            if st != "ok":
                res.violation("pda.intersection", "raised / hung: %s" % (I if st == "exc" else st),
                              detail={"outcome": [st, I]})
            else:
                # states of the result are State((pda_state, fa_state)); flatten to strings for the oracle
                def key(v):
                    if isinstance(v, tuple) and len(v) == 2:
                        return "%s~%s" % (v[0].value, str(v[1].value))
                    return str(v)
                st, ip = outcome(lambda: P.extract(I, state_key=key))
                if st == "ok" and ip["start"] is not None:
                    acc_p = drv.call("pda.acc", P=p, mode="final", words=words)
                    codes = [[symnames.index(a) if a in symnames else 99 for a in w] for w in words]
                    mem_r = drv.call("fa.member", A=R, words=codes)
                    acc_i = drv.call("pda.acc", P=ip, mode="final", words=words)
                    for w, a, b, c in zip(words, acc_i, acc_p, mem_r):
                        res.evals += 1
                        if a is None or b is None:
                            continue
                        if a != (b and c):
                            res.violation("pda.intersection", "result differs from (accepted by the PDA by final state and by r)",
                                          detail={"word": w, "result": a, "pda": b, "regular": c})
                            break
                    # structural model only when r is used as is (deterministic automaton operand)
                    if rspec["kind"] == "fa" and outcome(robj.is_deterministic) == ("ok", True) and R["starts"]:
                        M = drv.call("pda.inter", P=p, D=R, symNames=symnames)
                        if M is not None:
                            res.corr += 1
                            def mkey(pair):
                                return "%s~%s" % (pair[0], str(scodes.values[pair[1]]))
                            Mx = {**M, "states": [mkey(s) for s in M["states"]], "start": mkey(M["start"]),
                                  "finals": [mkey(s) for s in M["finals"]],
                                  "delta": [[mkey(t[0]), t[1], t[2], mkey(t[3]), t[4]] for t in M["delta"]]}
                            diff = P.same(ip, Mx, ("start", "startStack", "finals", "delta"))
                            if diff:
                                res.corr_break("pda.intersection", "structure differs from model: %s" % diff,
                                               detail={"impl": ip, "model": Mx})
        st, _ = outcome(lambda: pda.intersection("a*"))
        res.evals += 1
        if (st, _) != ("exc", "NotImplementedError"):
            res.violation("pda.intersection", "operand of another type does not raise NotImplementedError",
                          detail={"outcome": [st, _]})
    return res
