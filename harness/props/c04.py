"""C04 - is_empty / is_deterministic / is_acyclic / get_accepted_words are exact."""
from .. import fa as F
from ..core import CaseResult, outcome

ID = "C04"
RULE = ("random epsilon-NFA/NFA/DFA specs (0-5 states, 1-3 symbols, string state names so that set order "
        "varies with the hash seed) and, in the thorough tier, every epsilon-NFA with <=2 states over one "
        "symbol; is_empty / is_deterministic / is_acyclic and get_accepted_words(n) for n=0..4 (and n=None "
        "when the trimmed automaton is acyclic) are compared with the Lean model and with the exact oracles "
        "(isEmpty_iff, isDeterministic_iff theorems; bounded language enumeration; reachable-cycle search). "
        "Non-trivial: >=2 states, >=2 transitions, a start and a final state.")
THEOREMS = ["Pfl.ENFA.isAcyclic_total",
            "Pfl.ENFA.isAcyclic_no_polynomial_bound",
            "Pfl.ENFA.acceptedWords_total",
            "Pfl.ENFA.acceptedWords_unbounded_total",
            "Pfl.ENFA.isEmpty_iff",
            "Pfl.ENFA.isDeterministicE_iff",
            "Pfl.ENFA.isDeterministicN_iff",
            "Pfl.ENFA.reachableCycle_iff",
            "Pfl.ENFA.isAcyclic_iff",
            "Pfl.ENFA.mem_langUpTo_iff",
            "Pfl.ENFA.langUpTo_nodup",
            "Pfl.ENFA.mem_leadingToFinal_iff",
            "Pfl.ENFA.acceptedWords_exact",
            "Pfl.ENFA.acceptedWords_exact_unbounded",
            "Pfl.ENFA.member_iff"]


def generate(rng, tier):
    while True:
        spec = F.gen_fa(rng, max_states=5, pool=rng.choice(["str", "str", "int", "adv"]))
        yield {"fa": spec}


def exhaustive(tier):
    if tier != "thorough":
        return
    for n in (1, 2):
        for spec in F.enumerate_fa(n, 1, "E"):
            yield {"fa": spec}


def run_case(case, drv):
    res = CaseResult()
    spec = case["fa"]
    cls = spec["cls"]
    st, fa = outcome(lambda: F.build(spec))
    if st != "ok":
        res.tag("build_" + str(fa))
        return res
    scodes, ycodes = F.Codes(spec["svals"]), F.Codes(spec["symvals"])
    A = F.extract(fa, scodes, ycodes)
    res.nontrivial = F.is_nontrivial(spec)
    res.tag("cls_" + cls)
    preds = drv.call("fa.preds", A=A)

    # is_empty --------------------------------------------------------------------
    got = outcome(fa.is_empty)
    res.corr += 1
    res.evals += 1
    # isEmpty is proved equal to "no word accepted" (isEmpty_iff), so the model is the oracle
    if got != ("ok", preds["isEmpty"]):
        res.violation("is_empty", "is_empty() differs from language emptiness",
                      detail={"impl": got, "spec": preds["isEmpty"]})
    res.tag("empty_%s" % preds["isEmpty"])
    # is_deterministic --------------------------------------------------------------
    got = outcome(fa.is_deterministic)
    want = True if cls == "D" else (preds["isDetN"] if cls == "N" else preds["isDetE"])
    res.corr += 1
    res.evals += 1
    if got != ("ok", want):
        res.violation("is_deterministic", "is_deterministic() differs from the structural definition",
                      detail={"impl": got, "spec": want})
    res.tag("det_%s" % want)
    # is_acyclic ----------------------------------------------------------------------
    cyc = drv.call("fa.cycle", A=A)
    got = outcome(fa.is_acyclic, limit=10.0)
    res.evals += 1
    if got[0] == "timeout":
        res.tag("acyclic_timeout")
    elif got != ("ok", not cyc):
        res.violation("is_acyclic", "is_acyclic() differs from 'no cycle reachable from a start state'",
                      detail={"impl": got, "reachable_cycle": cyc},
                      model_agrees=(got == ("ok", preds["isAcyclic"])))
    elif preds["isAcyclic"] is not None and got != ("ok", preds["isAcyclic"]):
        res.corr_break("is_acyclic", "differs from model", detail={"impl": got, "model": preds["isAcyclic"]})
    res.corr += 1
    res.tag("cycle_%s" % cyc)
    # get_accepted_words ---------------------------------------------------------------
    bounds = [0, 1, 2, 3, 4]
    # unbounded enumeration only when it must terminate: no cycle among states that are
    # reachable and lead to a final state -> approximate by "no reachable cycle at all"
    if not cyc:
        bounds.append(None)
    for n in bounds:
        def run(n=n):
            out = []
            for w in fa.get_accepted_words(n):
                out.append([ycodes.code(s) for s in w])
                if len(out) > 5000:
                    break
            return out
        got = outcome(run, limit=10.0)
        nn = n if n is not None else len(A["states"]) + 1
        want = drv.call("fa.langUpTo", A=A, n=nn)
        res.evals += 1
        if got[0] != "ok":
            res.violation("get_accepted_words", "raised / hung: %s" % (got,), detail={"n": n})
            continue
        ws = got[1]
        if sorted(ws) != sorted(want):
            missing = [w for w in want if w not in ws]
            extra = [w for w in ws if w not in want]
            dup = len(ws) != len({tuple(w) for w in ws})
            res.violation("get_accepted_words", "yielded words differ from the language up to n",
                          detail={"n": n, "missing": missing[:3], "extra": extra[:3], "duplicates": dup})
        model = drv.call("fa.words", A=A, max=n)
        res.corr += 1
        if model is not None and sorted(model) != sorted(ws) and sorted(ws) == sorted(want):
            res.corr_break("get_accepted_words", "multiset differs from model", detail={"n": n})
    # trace-level tie: the internal co-reachability analysis, when it still exists
    f = getattr(fa, "_get_states_leading_to_final", None)
    if f is not None:
        got = outcome(f)
        res.corr += 1
        if got[0] == "ok":
            lead = sorted(scodes.code(s) for s in got[1])
            if lead != sorted(set(preds["leading"])):
                res.corr_break("_get_states_leading_to_final", "differs from model (backward reachability)",
                               detail={"impl": lead, "model": sorted(set(preds["leading"]))})
    return res
