"""Finite-automaton domain: generators, construction through the public API,
extraction of canonical structure (DESIGN 4.2, 4.3)."""
import itertools
from pyformlang.finite_automaton import (EpsilonNFA, NondeterministicFiniteAutomaton,
                                         DeterministicFiniteAutomaton, Epsilon, State, Symbol)

CLS = {"E": EpsilonNFA, "N": NondeterministicFiniteAutomaton, "D": DeterministicFiniteAutomaton}

ADV_STATES = ["a", "b", "a;b", "b;a", "1", 1, "TrashNode", "Empty", "TRASH", "a; b", "b; a",
              "", "c", "a;b;c", 0, "0", "q; r", "q", "r", "a; b; c", 2, "2", "1;2", "starting_0"]
PLAIN_SYMS = ["a", "b", "c", "d"]


def cls_of(fa):
    if isinstance(fa, DeterministicFiniteAutomaton):
        return "D"
    if isinstance(fa, NondeterministicFiniteAutomaton):
        return "N"
    return "E"


def gen_values(rng, n, pool):
    if pool == "int":
        return list(range(n))
    if pool == "str":
        alphabet = "abcdefghijklmnopqrstuvwxyz"
        vals = set()
        while len(vals) < n:
            vals.add("".join(rng.choice(alphabet) for _ in range(rng.randint(1, 3))))
        vals = sorted(vals)
        rng.shuffle(vals)
        return vals
    if pool == "adv":
        vals = []
        cands = ADV_STATES[:]
        rng.shuffle(cands)
        for v in cands:
            if len(vals) >= n:
                break
            if all(not (v == u and type(v) is type(u)) and v != u for u in vals):
                vals.append(v)
            if len(vals) == n:
                break
        return vals
    if pool == "subsets":
        # names as the library itself manufactures them for determinised automata: ';'-joined sorted subsets
        cands = ["0", "1", "2", "0;1", "0;2", "1;2", "0;1;2"]
        rng.shuffle(cands)
        return cands[:n]
    raise ValueError(pool)


def gen_fa(rng, cls=None, max_states=5, max_syms=3, pool=None, eps=True, allow_via_tf=False):
    """abstract automaton over codes 0..n-1; symbol codes 0..k-1"""
    cls = cls or rng.choice("EEEND")
    n = rng.choice([0, 1, 1, 2, 2, 3, 3, 3, 4, 4, 5][:max_states * 2 + 1]) if max_states >= 5 \
        else rng.randint(0, max_states)
    k = rng.randint(1, max_syms)
    pool = pool or rng.choice(["int", "str", "str", "adv"])
    n = min(n, 6)
    svals = gen_values(rng, n, pool)
    n = len(svals)
    symvals = PLAIN_SYMS[:k] if rng.random() < 0.8 else [10 + i for i in range(k)]
    states = list(range(n))
    density = rng.choice([0.15, 0.3, 0.5, 0.8])
    delta = []
    if cls == "D":
        for q in states:
            for a in range(k):
                if rng.random() < min(0.9, density * 1.6):
                    delta.append([q, a, rng.choice(states)])
        starts = [rng.choice(states)] if states and rng.random() < 0.92 else []
    else:
        for q in states:
            for a in range(k):
                for r in states:
                    if rng.random() < density / max(1, n) * 1.7:
                        delta.append([q, a, r])
        if cls == "E" and eps:
            pe = rng.choice([0.0, 0.1, 0.25, 0.4])
            for q in states:
                for r in states:
                    if rng.random() < pe / max(1, n) * 1.5:
                        delta.append([q, None, r])
        ns = rng.choice([0, 1, 1, 1, 2, 2, 3])
        starts = rng.sample(states, min(ns, n))
    nf = rng.choice([0, 1, 1, 1, 2, 2, 3])
    finals = rng.sample(states, min(nf, n))
    used = sorted({t[1] for t in delta if t[1] is not None})
    extra_syms = [a for a in range(k) if a not in used and rng.random() < 0.5]
    iso = [q for q in states if rng.random() < 0.15]
    # "churn": transitions / final marks that are added through the API and removed again before any query:
    # the automaton is the same, its construction history is not
    churn = []
    if states and rng.random() < 0.25:
        for _ in range(rng.randint(1, 3)):
            q, a, r = rng.choice(states), rng.randrange(k), rng.choice(states)
            if cls == "E" and rng.random() < 0.4:
                a = None        # an epsilon move that exists only for a while
            if [q, a, r] not in delta and ["t", q, a, r] not in churn \
                    and not (cls == "D" and any(t[0] == q and t[1] == a for t in delta + [c[1:] for c in churn])):
                churn.append(["t", q, a, r])
        for q in states:
            if q not in finals and rng.random() < 0.2:
                churn.append(["f", q])
        if cls != "D":
            for q in states:
                if q not in starts and rng.random() < 0.15:
                    churn.append(["s", q])
    # "prechurn": transitions added and removed again *before* the real ones are added - a real transition may
    # then land on a (state, symbol) entry that exists but is empty
    prechurn = []
    if states and rng.random() < 0.2:
        for _ in range(rng.randint(1, 3)):
            if delta and rng.random() < 0.6:
                q, a, _r = rng.choice(delta)
            else:
                q, a = rng.choice(states), rng.randrange(k)
            if a is None and cls != "E":
                continue
            r = rng.choice(states)
            if [q, a, r] not in prechurn and not (cls == "D" and any(t[0] == q and t[1] == a for t in prechurn)):
                prechurn.append([q, a, r])
    # queries issued while the temporary pieces are present: what they compute must not outlive the removal
    churn_query = bool(churn) and rng.random() < 0.6
    return {"cls": cls, "svals": svals, "symvals": symvals, "starts": starts, "finals": finals,
            "delta": delta, "extra_syms": extra_syms, "iso": iso, "churn": churn, "churn_query": churn_query,
            "prechurn": prechurn,
            # the transition function is built first and handed to the constructor (with or without the sets of
            # states and symbols it uses)
            "via_tf": allow_via_tf and rng.random() < 0.08, "tf_declared": rng.random() < 0.3}


def enumerate_fa(max_states, nsyms, cls="E", eps=True):
    """every automaton with `max_states` states exactly (codes as int values)"""
    states = list(range(max_states))
    labels = list(range(nsyms)) + ([None] if (eps and cls == "E") else [])
    edges = [(q, a, r) for q in states for a in labels for r in states]
    for sm in range(1 << max_states):
        starts = [q for q in states if sm >> q & 1]
        if cls == "D" and len(starts) > 1:
            continue
        for fm in range(1 << max_states):
            finals = [q for q in states if fm >> q & 1]
            for em in range(1 << len(edges)):
                delta = [list(edges[i]) for i in range(len(edges)) if em >> i & 1]
                yield {"cls": cls, "svals": states, "symvals": PLAIN_SYMS[:nsyms], "starts": starts,
                       "finals": finals, "delta": delta, "extra_syms": [], "iso": []}


def build(spec):
    """construct through the public API; returns the automaton"""
    cls = CLS[spec["cls"]]
    sv, yv = spec["svals"], spec["symvals"]
    if spec.get("via_tf"):
        return build_via_tf(spec, cls, sv, yv)
    if spec.get("iso"):
        fa = cls(states={sv[q] for q in spec["iso"]})
    else:
        fa = cls()
    for q in spec["starts"]:
        fa.add_start_state(sv[q])
    for q in spec["finals"]:
        fa.add_final_state(sv[q])
    for q, a, r in spec.get("prechurn", []):
        fa.add_transition(sv[q], Epsilon() if a is None else yv[a], sv[r])
    for q, a, r in spec.get("prechurn", []):
        fa.remove_transition(sv[q], Epsilon() if a is None else yv[a], sv[r])
    for q, a, r in spec["delta"]:
        fa.add_transition(sv[q], Epsilon() if a is None else yv[a], sv[r])
    for a in spec.get("extra_syms", []):
        fa.add_symbol(yv[a])
    for item in spec.get("churn", []):
        if item[0] == "t":
            fa.add_transition(sv[item[1]], Epsilon() if item[2] is None else yv[item[2]], sv[item[3]])
        elif item[0] == "s":
            fa.add_start_state(sv[item[1]])
        else:
            fa.add_final_state(sv[item[1]])
    if spec.get("churn_query"):
        churn_queries(fa, yv)
    for item in spec.get("churn", []):
        if item[0] == "t":
            fa.remove_transition(sv[item[1]], Epsilon() if item[2] is None else yv[item[2]], sv[item[3]])
        elif item[0] == "s":
            fa.remove_start_state(sv[item[1]])
        else:
            fa.remove_final_state(sv[item[1]])
    return fa


def build_via_tf(spec, cls, sv, yv):
    """the transition function is filled first and given to the constructor"""
    from pyformlang.finite_automaton import TransitionFunction, NondeterministicTransitionFunction
    tf = TransitionFunction() if spec["cls"] == "D" else NondeterministicTransitionFunction()
    for q, a, r in spec["delta"]:
        tf.add_transition(State(sv[q]), Epsilon() if a is None else Symbol(yv[a]), State(sv[r]))
    kw = {"transition_function": tf, "final_states": {sv[q] for q in spec["finals"]}}
    if spec["cls"] == "D":
        kw["start_state"] = sv[spec["starts"][0]] if spec["starts"] else None
    else:
        kw["start_state"] = {sv[q] for q in spec["starts"]}
    if spec.get("iso"):
        kw["states"] = {sv[q] for q in spec["iso"]}
    if spec.get("tf_declared"):
        kw["states"] = set(kw.get("states", set())) | {sv[t[0]] for t in spec["delta"]} | {sv[t[2]] for t in spec["delta"]}
        kw["input_symbols"] = {yv[t[1]] for t in spec["delta"] if t[1] is not None}
    fa = cls(**kw)
    for a in spec.get("extra_syms", []):
        fa.add_symbol(yv[a])
    return fa


def churn_queries(fa, yv):
    """public queries on the automaton while it still holds pieces that are about to be removed; the answers are
    discarded - only what they might leave behind in the object matters"""
    try:
        for w in ([], [yv[0]] if yv else [], list(yv[:2])):
            fa.accepts(w)
        fa.is_deterministic()
        fa.is_empty()
        if hasattr(fa, "eclose"):
            for q in list(fa.states):
                fa.eclose(q)
        if len(fa.states) <= 4:
            fa.to_deterministic()
            fa.is_acyclic()
    except Exception:  # pylint: disable=broad-except
        pass


class Codes:
    """value <-> code table; Python equality of State/Symbol values (1 != "1")"""

    def __init__(self, values):
        self.values = list(values)

    def code(self, v):
        if isinstance(v, (State, Symbol)):
            v = v.value
        for i, u in enumerate(self.values):
            if u == v and type(u) is type(v):
                return i
        self.values.append(v)
        return len(self.values) - 1


def sym_code(sym, ycodes):
    if isinstance(sym, Epsilon):
        return None
    return ycodes.code(sym)


def extract(fa, scodes, ycodes):
    """model-format automaton (lists in the implementation's iteration order)"""
    delta = []
    for s_from, by in fa.to_dict().items():
        for symb, tos in by.items():
            if isinstance(tos, State):
                tos = [tos]
            for s_to in tos:
                delta.append([scodes.code(s_from), sym_code(symb, ycodes), scodes.code(s_to)])
    return {"states": [scodes.code(s) for s in fa.states],
            "syms": [ycodes.code(s) for s in fa.symbols],
            "starts": [scodes.code(s) for s in fa.start_states],
            "finals": [scodes.code(s) for s in fa.final_states],
            "delta": delta}


def extract_named(fa, ycodes):
    """automaton whose state values are the library's manufactured names"""
    delta = []
    for s_from, by in fa.to_dict().items():
        for symb, tos in by.items():
            if isinstance(tos, State):
                tos = [tos]
            for s_to in tos:
                delta.append([s_from.value, sym_code(symb, ycodes), s_to.value])
    return {"states": [s.value for s in fa.states],
            "syms": [ycodes.code(s) for s in fa.symbols],
            "starts": [s.value for s in fa.start_states],
            "finals": [s.value for s in fa.final_states],
            "delta": delta}


def _k(x):
    return (type(x).__name__, x) if not isinstance(x, list) else tuple(_k(y) for y in x)


def canon(a):
    """order-free form for comparison"""
    return {"states": sorted(set(map(_k, a["states"]))), "syms": sorted(set(a["syms"])),
            "starts": sorted(set(map(_k, a["starts"]))), "finals": sorted(set(map(_k, a["finals"]))),
            "delta": sorted({(_k(t[0]), (-1 if t[1] is None else t[1]), _k(t[2])) for t in a["delta"]})}


def same(a, b, fields=("states", "syms", "starts", "finals", "delta")):
    ca, cb = canon(a), canon(b)
    return [f for f in fields if ca[f] != cb[f]]


def renumber(a):
    """states -> 0..n-1 (for the oracles, which work on Nat codes)"""
    table = Codes([])
    idx = lambda v: table.code(v)  # noqa: E731
    out = {"states": [idx(s) for s in a["states"]], "syms": list(a["syms"]),
           "starts": [idx(s) for s in a["starts"]], "finals": [idx(s) for s in a["finals"]],
           "delta": [[idx(t[0]), t[1], idx(t[2])] for t in a["delta"]]}
    # the add_* API keeps every mentioned state in `states`; make that explicit for the oracle
    for t in out["delta"]:
        for q in (t[0], t[2]):
            if q not in out["states"]:
                out["states"].append(q)
    return out


def names_clean(svals):
    strs = [str(v) for v in svals]
    return len(set(strs)) == len(strs) and all(";" not in s and s not in ("TRASH", "") for s in strs)


def words_upto(syms, n):
    out = [[]]
    for length in range(1, n + 1):
        out.extend(list(w) for w in itertools.product(syms, repeat=length))
    return out


def is_nontrivial(spec):
    return len(spec["svals"]) >= 2 and len(spec["delta"]) >= 2 and bool(spec["starts"]) \
        and bool(spec["finals"])


def structurally_deterministic(a):
    seen = {}
    for q, s, r in a["delta"]:
        if s is None:
            return False
        if seen.setdefault((_k(q), s), _k(r)) != _k(r):
            return False
    return len(set(map(_k, a["starts"]))) <= 1


def build_from_extract(ex, symvals):
    """a fresh DeterministicFiniteAutomaton / EpsilonNFA with int states from an extracted structure"""
    from pyformlang.finite_automaton import EpsilonNFA
    fa = EpsilonNFA()
    for q in ex["starts"]:
        fa.add_start_state(q)
    for q in ex["finals"]:
        fa.add_final_state(q)
    for q, a, r in ex["delta"]:
        fa.add_transition(q, Epsilon() if a is None else symvals[a], r)
    return fa
