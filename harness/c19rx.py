"""C19 - Regex objects as a state machine (Pfl/Model/RegexObject.lean): a history of public calls on a
population of regex objects that share their operands (`regex.sons = [self, other]`): `Regex(text)`,
`union` / `concatenate` / `kleene_star` (also of an object with itself, and of an inner node of another
object), `to_epsilon_nfa()`, `accepts()`, and mutations of the automata handed out.  After every call the
answer (state numbers included: the private counter is never reset and is modelled) and the hidden state of
*every* object (`_counter`, `_enfa`, `_enfa_accepts`) are compared with the model's heap; every answer is
also compared with the answer of freshly built equal objects (same tree, no history) and decided by the
verified matcher."""
from pyformlang.regular_expression import Regex
from pyformlang.finite_automaton import State, Symbol, Epsilon
from . import rxdom as R
from . import fa as F
from .core import outcome

WORD_SYMS = ["a", "b", "c", "ab", "zz"]


def gen_history(rng):
    ops = []
    n_obj = 0     # number of user-visible handles (indices into `handles`)
    for _ in range(rng.choice([1, 1, 2])):
        t = R.gen_ast(rng, depth=rng.choice([1, 2, 3]), escaped=False)
        ops.append({"op": "new", "text": R.render(t, rng)})
        n_obj += 1
    for _ in range(rng.randint(3, 12)):
        r = rng.random()
        if r < 0.12:
            t = R.gen_ast(rng, depth=rng.choice([0, 1, 2]), escaped=False)
            ops.append({"op": "new", "text": R.render(t, rng)})
            n_obj += 1
        elif r < 0.30:
            i = rng.randrange(n_obj)
            j = i if rng.random() < 0.3 else rng.randrange(n_obj)
            ops.append({"op": rng.choice(["union", "concat"]), "i": i, "j": j})
            n_obj += 1
        elif r < 0.37:
            ops.append({"op": "star", "i": rng.randrange(n_obj)})
            n_obj += 1
        elif r < 0.45:
            # a handle on an inner node of an existing object (a son is a Regex of its own)
            ops.append({"op": "son", "i": rng.randrange(n_obj), "k": rng.randrange(2)})
            n_obj += 1
        elif r < 0.70:
            ops.append({"op": "toENFA", "i": rng.randrange(n_obj), "mutate": rng.random() < 0.5})
        else:
            w = [rng.choice(WORD_SYMS) for _ in range(rng.choice([0, 1, 1, 2, 2, 3]))]
            ops.append({"op": "accepts", "i": rng.randrange(n_obj), "w": w})
    return {"ops": ops}


class Population:
    """the Python objects and their model addresses (allocation order of the model: sons first)"""

    def __init__(self):
        self.addr = {}      # id(obj) -> address
        self.objs = []      # address -> obj
        self.handles = []   # user-visible handles

    def register_tree(self, obj):
        for son in (obj.sons or []):
            if id(son) not in self.addr:
                self.register_tree(son)
        self.addr[id(obj)] = len(self.objs)
        self.objs.append(obj)
        return self.addr[id(obj)]


def extract_fa(E, names):
    ycodes = F.Codes(list(names))
    delta = []
    for s_from, by in E.to_dict().items():
        for symb, tos in by.items():
            if isinstance(tos, State):
                tos = [tos]
            for s_to in tos:
                delta.append([s_from.value, None if isinstance(symb, Epsilon) else ycodes.code(str(symb.value)),
                              s_to.value])
    return {"states": [s.value for s in E.states], "syms": [ycodes.code(str(s.value)) for s in E.symbols],
            "starts": [s.value for s in E.start_states], "finals": [s.value for s in E.final_states],
            "delta": delta}


def hidden(pop, names):
    out = []
    for o in pop.objs:
        acc = getattr(o, "_enfa_accepts")
        out.append({"counter": getattr(o, "_counter"), "sons": [pop.addr[id(s)] for s in (o.sons or [])],
                    "enfa_unset": getattr(o, "_enfa") is None,
                    "acc": None if acc is None else extract_fa(acc, names)})
    return out


def fresh_equal(obj):
    """an equal object without history: the same tree rebuilt node by node through the public combinators"""
    t = R.tree_of(obj)

    def build(t):
        k = t[0]
        if k == "sym":
            r = Regex("a")
            r.head = type(r.head)(t[1])
            return r
        if k == "eps":
            return Regex("$")
        if k == "empty":
            return Regex("")
        if k == "cat":
            return build(t[1]).concatenate(build(t[2]))
        if k == "alt":
            return build(t[1]).union(build(t[2]))
        return build(t[1]).kleene_star()
    return build(t)


def shift_fa(a, k):
    return {"states": [s - k for s in a["states"]], "syms": a["syms"], "starts": [s - k for s in a["starts"]],
            "finals": [s - k for s in a["finals"]], "delta": [[p - k, x, q - k] for p, x, q in a["delta"]]}


def run_history(case, drv, res):
    ops = case["ops"]
    pop = Population()
    mops = []          # the model's operations (addresses instead of handles)
    names = sorted(set(R.SYMS) | set(WORD_SYMS))
    no_hidden = False
    res.nontrivial = len(ops) >= 5 and len({o["op"] for o in ops}) >= 3
    for idx, op in enumerate(ops):
        k = op["op"]
        name = "r." + {"new": "Regex", "union": "union", "concat": "concatenate", "star": "kleene_star",
                       "son": "sons", "toENFA": "to_epsilon_nfa", "accepts": "accepts"}[k]
        got = None
        if k == "new":
            st, obj = outcome(lambda: Regex(op["text"]))
            if st != "ok":
                res.tag("build_fail")
                return
            a = pop.register_tree(obj)
            pop.handles.append(obj)
            mops.append({"op": "new", "tree": R.tree_of(obj)})
            got = {"addr": a}
        elif k in ("union", "concat"):
            x, y = pop.handles[op["i"]], pop.handles[op["j"]]
            st, obj = outcome(lambda: x.union(y) if k == "union" else x.concatenate(y))
            if st != "ok":
                res.violation(name, "raised %s" % obj, detail={"step": idx, "history": ops[:idx + 1]})
                return
            a = pop.register_tree(obj)
            pop.handles.append(obj)
            mops.append({"op": k, "i": pop.addr[id(x)], "j": pop.addr[id(y)]})
            got = {"addr": a}
        elif k == "star":
            x = pop.handles[op["i"]]
            st, obj = outcome(x.kleene_star)
            if st != "ok":
                res.violation(name, "raised %s" % obj, detail={"step": idx, "history": ops[:idx + 1]})
                return
            a = pop.register_tree(obj)
            pop.handles.append(obj)
            mops.append({"op": "star", "i": pop.addr[id(x)]})
            got = {"addr": a}
        elif k == "son":
            x = pop.handles[op["i"]]
            sons = x.sons or []
            pop.handles.append(sons[op["k"] % len(sons)] if sons else x)
            continue       # no call: only a new handle
        elif k == "toENFA":
            x = pop.handles[op["i"]]
            st, E = outcome(x.to_epsilon_nfa)
            if st != "ok":
                res.violation(name, "raised %s" % E, detail={"step": idx, "history": ops[:idx + 1]})
                return
            got = {"fa": extract_fa(E, names)}
            mops.append({"op": "toENFA", "i": pop.addr[id(x)]})
            # the same conversion on an equal object without history: same automaton up to the shift of the counter
            st, E0 = outcome(lambda: fresh_equal(x).to_epsilon_nfa())
            res.evals += 1
            if st == "ok":
                f0 = extract_fa(E0, names)
                base = min(got["fa"]["starts"]) if got["fa"]["starts"] else 0
                if F.same(shift_fa(got["fa"], base), f0, ("states", "starts", "finals", "delta")):
                    # certified by the verified equivalence oracle on the tree
                    fe = drv.call("rx.faEquiv", tree=R.tree_of(x), A=F.renumber(got["fa"]), symNames=names)
                    if fe is not None and not fe["equiv"]:
                        res.violation(name, "automaton handed out after a history does not accept the language "
                                      "of the regex", detail={"step": idx, "history": ops[:idx + 1],
                                                              "word": fe["word"]})
                        return
                    res.corr_break(name, "automaton differs from the one of a fresh equal object (beyond the "
                                   "shift of state numbers)", detail={"step": idx, "history": ops[:idx + 1]})
                    return
            if op.get("mutate"):
                # the caller owns the automaton: editing it must not change anything the regex answers later
                for s in list(E.states):
                    E.add_final_state(s)
                E.add_transition(State("m"), Symbol("a"), State("m"))
                E.add_start_state(State("m"))
        elif k == "accepts":
            x = pop.handles[op["i"]]
            st, b = outcome(lambda: x.accepts(list(op["w"])))
            if st != "ok":
                res.violation(name, "raised %s" % b, detail={"step": idx, "history": ops[:idx + 1]})
                return
            got = {"bool": b}
            mops.append({"op": "accepts", "i": pop.addr[id(x)], "w": op["w"]})
            # decided on the tree by the verified matcher, and against a fresh equal object
            m = drv.call("rx.matches", tree=R.tree_of(x), words=[op["w"]])
            st, b0 = outcome(lambda: fresh_equal(x).accepts(list(op["w"])))
            res.evals += 1
            if (m is not None and m[0] != b) or (st == "ok" and b0 != b):
                res.violation(name, "accepts() after a history differs from membership in the language of the "
                              "regex / from a fresh equal object",
                              detail={"step": idx, "history": ops[:idx + 1], "word": op["w"], "got": b,
                                      "matcher": None if m is None else m[0], "fresh": b0 if st == "ok" else st})
                return
        # ---- tie with the object model: answer and hidden state of every object --------------------------------
        model = drv.call("rx.objRun", symNames=names, ops=mops)
        if model is None or len(model) != len(mops) or model[-1] is None:
            res.tag("model_fuel")
            return
        mo = model[-1]
        res.corr += 1
        d = None
        if "addr" in got:
            d = None if mo["out"].get("addr") == got["addr"] else "address differs"
        elif "bool" in got:
            d = None if mo["out"].get("bool") == got["bool"] else "boolean differs"
        elif "fa" in got:
            d = F.same(got["fa"], mo["out"].get("fa", {}), ("states", "syms", "starts", "finals", "delta")) \
                if "fa" in mo["out"] else "model did not answer an automaton"
            if d:
                d = "automaton (state numbers included) differs: %s" % d
        if d:
            res.corr_break(name, "answer differs from the regex object model: %s" % d,
                           detail={"step": idx, "history": ops[:idx + 1], "impl": str(got)[:400],
                                   "model": str(mo["out"])[:400]})
            return
        if no_hidden:
            continue
        st, h = outcome(lambda: hidden(pop, names))
        if st != "ok":
            # the private fields the model describes are gone: go on comparing the answers (with the model, the
            # verified matcher and fresh equal objects); the broken tie is reported at the end
            res.tag("hidden_unreadable")
            no_hidden = True
            continue
        res.corr += 1
        mh = mo["heap"]
        d = None
        if len(h) != len(mh):
            d = "number of objects differs"
        else:
            for a, (x, y) in enumerate(zip(h, mh)):
                if x["counter"] != y["counter"]:
                    d = "_counter of object %d is %d, model %d" % (a, x["counter"], y["counter"])
                elif x["sons"] != y["sons"]:
                    d = "sons of object %d differ" % a
                elif not x["enfa_unset"]:
                    d = "_enfa of object %d is still set after the call" % a
                elif (x["acc"] is None) != (y["acc"] is None):
                    d = "_enfa_accepts of object %d set/unset differs" % a
                elif x["acc"] is not None and F.same(x["acc"], y["acc"], ("states", "syms", "starts", "finals", "delta")):
                    d = "_enfa_accepts of object %d differs" % a
                if d:
                    break
        if d:
            probe_continuations(pop, ops[:idx + 1], res, name)
            res.corr_break(name, "hidden state after the call differs from the regex object model: %s" % d,
                           detail={"step": idx, "history": ops[:idx + 1]})
            return
    if no_hidden:
        probe_continuations(pop, ops, res, "r.accepts")
        res.corr_break("r.hidden", "the private state of Regex objects (_counter, _enfa, _enfa_accepts) cannot be read "
                       "as the regex object model describes it", detail={"history": ops})
        return
    res.tag("regex_object_history")


def probe_continuations(pop, history, res, name):
    """the model no longer describes the objects: look for a query on which an object with this history and a
    fresh equal object differ (a certified failing history)"""
    words = [[], ["a"], ["b"], ["a", "b"], ["ab"], ["c"], ["a", "a"], ["b", "c"]]
    for a, obj in enumerate(pop.objs):
        for w in words:
            g = outcome(lambda: obj.accepts(list(w)))
            f = outcome(lambda: fresh_equal(obj).accepts(list(w)))
            if g != f and "timeout" not in (g[0], f[0]):
                res.violation(name, "answer depends on the call history",
                              detail={"object": a, "word": w, "with_history": str(g), "fresh": str(f),
                                      "history": history})
                return
