"""C19 - a PDA object as a state machine (Pfl/Model/PDAObject.lean): the constructor called with any subset of its
arguments, then a history of public mutator calls (add_transition incl. a second outcome on an existing key,
set_start_state, set_start_stack_symbol, add_final_state) interleaved with conversions.  After every call the
private fields (`_states`, `_input_symbols`, `_stack_alphabet`, `_start_state`, `_start_stack_symbol`,
`_final_states`, `_transitions` with its key order) and `get_number_transitions()` are compared with the
model; conversions of the live object (`to_empty_stack`, `to_final_state`, `intersection`, `copy` of the table)
must give what they give on a fresh PDA that received only the current structure (two runs of the real code
certify a dependence on history), and must leave the object unchanged."""
from pyformlang.pda import PDA, Epsilon as PEps
from pyformlang.regular_expression import Regex
from . import pdadom as P
from .core import outcome

STATES = ["q0", "q1", "q2", "#STARTEMPTYS#", "#ENDTOFINAL#"]
STACK = ["Z", "A", "#BOTTOMTOFINAL#"]
INPUTS = ["a", "b"]
CONV = ["to_empty_stack", "to_final_state", "intersection", "roundtrip"]


def gen_history(rng):
    ns = rng.randint(1, 3)
    states = STATES[:ns] + ([rng.choice(STATES[3:])] if rng.random() < 0.2 else [])
    init = {"states": rng.sample(states, rng.randint(0, len(states))) if rng.random() < 0.5 else [],
            "inputs": rng.sample(INPUTS, rng.randint(0, 2)) if rng.random() < 0.5 else [],
            "stack": rng.sample(STACK, rng.randint(0, 2)) if rng.random() < 0.5 else [],
            "start": rng.choice(states) if rng.random() < 0.5 else None,
            "startStack": rng.choice(STACK[:2]) if rng.random() < 0.5 else None,
            "finals": rng.sample(states, rng.randint(0, min(2, len(states)))) if rng.random() < 0.5 else []}
    ops = []
    keys = []
    for _ in range(rng.randint(3, 10)):
        r = rng.random()
        if r < 0.5:
            if keys and rng.random() < 0.4:
                q, a, x = rng.choice(keys)            # another outcome on an existing key
            else:
                q, a, x = rng.choice(states), (rng.choice(INPUTS) if rng.random() < 0.7 else None), rng.choice(STACK[:2])
                keys.append((q, a, x))
            push = [rng.choice(STACK[:2]) for _ in range(rng.choice([0, 1, 2, 2]))]
            ops.append(["add_t", q, a, x, rng.choice(states), push])
        elif r < 0.6:
            ops.append(["set_s", rng.choice(states)])
        elif r < 0.68:
            ops.append(["set_z", rng.choice(STACK[:2])])
        elif r < 0.8:
            ops.append(["add_f", rng.choice(states)])
        else:
            ops.append(["conv", rng.choice(CONV)])
    ops.append(["conv", rng.choice(CONV)])
    if keys and rng.random() < 0.35:
        # the same conversion before and after another outcome is added on an existing key
        c = rng.choice(CONV)
        q, a, x = rng.choice(keys)
        ops += [["conv", c], ["add_t", q, a, x, rng.choice(states), [rng.choice(STACK[:2]) for _ in range(rng.choice([0, 1, 2]))]],
                ["conv", c]]
    return {"init": init, "ops": ops}


def construct(init):
    kw = {}
    if init["states"]:
        kw["states"] = set(init["states"])
    if init["inputs"]:
        kw["input_symbols"] = set(init["inputs"])
    if init["stack"]:
        kw["stack_alphabet"] = set(init["stack"])
    if init["start"] is not None:
        kw["start_state"] = init["start"]
    if init["startStack"] is not None:
        kw["start_stack_symbol"] = init["startStack"]
    if init["finals"]:
        kw["final_states"] = set(init["finals"])
    return PDA(**kw)


def apply_mut(p, op):
    k = op[0]
    if k == "add_t":
        p.add_transition(op[1], PEps() if op[2] is None else op[2], op[3], op[4], list(op[5]))
    elif k == "set_s":
        p.set_start_state(op[1])
    elif k == "set_z":
        p.set_start_stack_symbol(op[1])
    elif k == "add_f":
        p.add_final_state(op[1])


def hidden(p):
    table = getattr(getattr(p, "_transition_function"), "_transitions")
    trans = []
    for (q, a, x), outs in table.items():
        trans.append([[q.value, None if isinstance(a, PEps) else a.value, x.value],
                      sorted([s.value, [y.value for y in push]] for s, push in outs)])
    ss, zz = getattr(p, "_start_state"), getattr(p, "_start_stack_symbol")
    return {"states": sorted(s.value for s in getattr(p, "_states")),
            "inputs": sorted(s.value for s in getattr(p, "_input_symbols")),
            "stack": sorted(s.value for s in getattr(p, "_stack_alphabet")),
            "start": None if ss is None else ss.value, "startStack": None if zz is None else zz.value,
            "finals": sorted(s.value for s in getattr(p, "_final_states")), "trans": trans}


def model_view(m):
    return {"states": sorted(m["states"]), "inputs": sorted(m["inputs"]), "stack": sorted(m["stack"]),
            "start": m["start"], "startStack": m["startStack"], "finals": sorted(m["finals"]),
            "trans": [[k, sorted(outs)] for k, outs in m["trans"]]}


def fresh_from(p):
    """a PDA that only ever received the current structure"""
    x = P.extract(p)
    g = PDA(states=set(x["states"]), input_symbols=set(x["inputs"]), stack_alphabet=set(x["stack"]),
            start_state=x["start"], start_stack_symbol=x["startStack"], final_states=set(x["finals"]))
    for q, a, s, q2, push in x["delta"]:
        g.add_transition(q, PEps() if a is None else a, s, q2, push)
    return g


def convert(p, name):
    if name == "to_empty_stack":
        return P.canon(P.extract(p.to_empty_stack()))
    if name == "to_final_state":
        return P.canon(P.extract(p.to_final_state()))
    if name == "intersection":
        r = p.intersection(Regex("a* b*"))
        return (len(r.states), r.get_number_transitions(), len(r.final_states))
    # the table's own copy(), as the conversions use it
    tf = getattr(p, "_transition_function").copy()
    return sorted((str(k), sorted(str(o) for o in v)) for k, v in tf.to_dict().items())


def run_history(case, drv, res):
    init, ops = case["init"], case["ops"]
    st, p = outcome(lambda: construct(init))
    if st != "ok":
        res.tag("constructor_raised")
        return
    mops = [o for o in ops if o[0] != "conv"]
    answer = drv.call("pda.objRun", init=init, ops=mops)
    res.nontrivial = len(mops) >= 4 and len({o[0] for o in ops}) >= 3
    st, h = outcome(lambda: hidden(p))
    res.corr += 1
    if st != "ok" or h != model_view(answer["init"]):
        res.corr_break("pda.__init__", "object after the constructor differs from the PDA object model",
                       detail={"init": init, "impl": str(h)[:300], "model": str(answer["init"])[:300]})
        return
    mi = 0
    for idx, op in enumerate(ops):
        if op[0] == "conv":
            name = "pda." + op[1]
            before = outcome(lambda: hidden(p))
            a = outcome(lambda: convert(p, op[1]), limit=8.0)
            after = outcome(lambda: hidden(p))
            st, g = outcome(lambda: fresh_from(p))
            if st != "ok":
                res.tag("rebuild_fail")
                return
            b = outcome(lambda: convert(g, op[1]), limit=8.0)
            res.evals += 1
            if "timeout" in (a[0], b[0]):
                res.tag("timeout")
                return
            if a != b:
                res.violation(name, "conversion of an extended PDA differs from the conversion of a fresh PDA with the "
                              "same structure", detail={"init": init, "step": idx, "history": ops[:idx + 1],
                                                        "with_history": str(a)[:300], "fresh": str(b)[:300]})
                return
            if before != after:
                res.violation(name, "conversion changed its operand", detail={"init": init, "step": idx,
                                                                             "history": ops[:idx + 1]})
                return
            continue
        name = "pda." + {"add_t": "add_transition", "set_s": "set_start_state", "set_z": "set_start_stack_symbol",
                         "add_f": "add_final_state"}[op[0]]
        st, _ = outcome(lambda: apply_mut(p, op))
        if st != "ok":
            res.violation(name, "raised %s" % _, detail={"init": init, "history": ops[:idx + 1]})
            return
        m = answer["steps"][mi]
        mi += 1
        st, h = outcome(lambda: hidden(p))
        res.corr += 1
        if st != "ok":
            res.corr_break(name, "private fields cannot be read as the PDA object model describes them",
                           detail={"init": init, "history": ops[:idx + 1]})
            return
        mv = model_view(m)
        if h != mv:
            diff = [k for k in h if h[k] != mv[k]]
            res.corr_break(name, "private fields %s differ from the PDA object model" % diff,
                           detail={"init": init, "step": idx, "history": ops[:idx + 1],
                                   "impl": str({k: h[k] for k in diff})[:300], "model": str({k: mv[k] for k in diff})[:300]})
            return
        st, n = outcome(p.get_number_transitions)
        res.corr += 1
        if st != "ok" or n != m["num"]:
            res.corr_break(name, "get_number_transitions() differs from the model", detail={"impl": n, "model": m["num"]})
            return
    res.tag("pda_object_history")
