"""C20 - CFG.to_text / CFG.from_text against the character-level Lean model (Pfl/Model/TextCodec.lean):
the string primitives (splitlines / strip / split on random texts full of unusual blanks and line boundaries),
the lines written for a grammar, the productions read from exported and from perturbed texts; for grammars over
plain tokens the round trip itself must give back the productions (Lean: fromText_toText)."""
from pyformlang.cfg import CFG, Variable, Terminal, Production
from .core import outcome

CHARS = ["a", "B", "x", " ", " ", "\t", "\n", "\r", "\r\n", "\x0b", "\x0c", "\x1c", "\x1d", "\x1e", "\x1f", "\x85",
         "\xa0", "\u1680", "\u2003", "\u200a", "\u2028", "\u2029", "\u202f", "\u205f", "\u3000", "\u200b", "-", ">", "|",
         '"', "$"]
PLAIN_VARS = ["S", "x", "aVar", "Zed", "\u00c9t", "\u00f1", "x-y", "a>b", 'q"', "VAR", "TER:x", "-", "s\u200bt"]
PLAIN_TERS = ["a", "B", "Big", "\u00c9", "t1", "-", ">", "\u01c5", "VAR:", '"', "\u200b", "eps"]
ADV_TOKENS = ['"VAR:x"', '"TER:B"', "$", "epsilon", "\u03b5", "a|b", "x->y", "a b", '"VAR:"', ""]
BLANKS = [" ", "\t", "\xa0", "\u2003", "\u3000", "\x1f"]
BREAKS = ["\n", "\r\n", "\r", "\x0b", "\x0c", "\x1c", "\x85", "\u2028"]


def gen(rng):
    adv = rng.random() < 0.3
    vs = rng.sample(PLAIN_VARS, rng.randint(1, 3))
    ts = rng.sample(PLAIN_TERS, rng.randint(1, 3))
    ts = [t for t in ts if t not in vs] or ["a"]
    if rng.random() < 0.2:
        ts.append(rng.choice(vs))           # a terminal spelled like a variable is another symbol (plain tokens too)
    if adv:
        (vs if rng.random() < 0.5 else ts).append(rng.choice(ADV_TOKENS))
        if rng.random() < 0.3:
            ts.append(rng.choice(vs))       # a terminal spelled like a variable is another symbol
    prods = []
    for _ in range(rng.randint(1, 5)):
        body = []
        for _ in range(rng.choice([0, 1, 2, 2, 3])):
            body.append(["v", rng.choice(vs)] if rng.random() < 0.5 else ["t", rng.choice(ts)])
        prods.append([rng.choice(vs), body])
    texts = ["".join(rng.choice(CHARS) for _ in range(rng.randint(0, 10))) for _ in range(3)]
    return {"prods": prods, "adv": adv, "texts": texts, "perturb": rng.randrange(1 << 30)}


def build(prods):
    ps = set()
    for h, body in prods:
        ps.add(Production(Variable(h), [Variable(x) if k == "v" else Terminal(x) for k, x in body]))
    return CFG(start_symbol=Variable(prods[0][0]), productions=ps)


def x_prods(cfg):
    return sorted((p.head.value, tuple(("v" if isinstance(y, Variable) else "t", y.value) for y in p.body))
                  for p in cfg.productions)


def c_prods(prods):
    return sorted({(h, tuple((k, x) for k, x in body)) for h, body in prods})


def perturb(text, seed):
    import random
    r = random.Random(seed)
    out = []
    for ch in text:
        if ch == "\n" and r.random() < 0.5:
            out.append(r.choice(BREAKS))
        elif ch == " " and r.random() < 0.3:
            out.append(r.choice(BLANKS) * r.randint(1, 2))
        else:
            out.append(ch)
    t = "".join(out)
    c = r.randrange(6)
    if c == 0:
        t = t.replace(" -> ", " -> a | ", 1)
    elif c == 1:
        t = t + "\n\n  \nX -> y\n"
    elif c == 2:
        t = t.replace("->", "-> ->", 1)
    elif c == 3:
        t = t.replace(" -> ", "->", 1)
    elif c == 4:
        t = "  " + t.replace("\n", " | $ \n", 1)
    return t


def run(case, drv, res):
    # ---- string primitives -------------------------------------------------------------------------------
    m = drv.call("txt.split", texts=case["texts"])
    for t, mm in zip(case["texts"], m):
        res.corr += 1
        impl = {"lines": t.splitlines(), "strip": t.strip(), "words": t.split()}
        if impl != mm:
            res.corr_break("cfg.text", "splitlines / strip / split differ from the model",
                           detail={"text": t, "impl": impl, "model": mm})
            return
    # ---- lines written -------------------------------------------------------------------------------------
    prods = [p for p in case["prods"]]
    if any(x == "" for h, b in prods for x in [h] + [y for _, y in b]):
        prods = [[h or "E", [[k, x or "e"] for k, x in b]] for h, b in prods]
    st, cfg = outcome(lambda: build(prods))
    if st != "ok":
        res.tag("text_build_fail")
        return
    want = x_prods(cfg)
    st, text = outcome(cfg.to_text)
    res.evals += 1
    if st != "ok":
        res.violation("cfg.text", "to_text raised %s" % (text,), detail={"prods": prods})
        return
    used = {c for h, b in prods for tok in [h] + [x for _, x in b] for c in tok}
    upper = "".join(sorted(c for c in used if c.isupper()))
    uniq = [[h, [[k, x] for k, x in b]] for h, b in want]
    ml = drv.call("txt.lines", prods=uniq, upper=upper)
    res.corr += 1
    if sorted(text[:-1].split("\n")) != sorted(ml) or not text.endswith("\n"):
        res.corr_break("cfg.text", "lines written differ from the model", detail={"impl": text, "model": ml})
    # ---- round trip (plain tokens: must give the productions back) ----------------------------------------
    got = outcome(lambda: x_prods(CFG.from_text(text, Variable(prods[0][0]))))
    mr = drv.call("txt.fromText", texts=[text])[0]
    res.evals += 1
    res.corr += 1
    agrees = (got[0] == "ok" and mr is not None and got[1] == c_prods(mr)) or (got[0] != "ok" and mr is None)
    if not case["adv"]:
        if got != ("ok", want):
            res.violation("cfg.text", "from_text(to_text()) does not give the productions back",
                          detail={"text": text, "before": want, "after": got}, model_agrees=agrees)
    if not agrees:
        res.corr_break("cfg.text", "productions read differ from the model",
                       detail={"text": text, "impl": got, "model": mr})
    # ---- reading a perturbed text ---------------------------------------------------------------------------
    t2 = perturb(text, case["perturb"])
    got = outcome(lambda: x_prods(CFG.from_text(t2, Variable("S"))))
    mr = drv.call("txt.fromText", texts=[t2])[0]
    res.corr += 1
    if got[0] == "ok":
        if mr is None or got[1] != c_prods(mr):
            res.corr_break("cfg.text", "productions read from an edited text differ from the model",
                           detail={"text": t2, "impl": got[1], "model": mr})
    elif mr is not None:
        res.corr_break("cfg.text", "from_text raised %s on an edited text, the model reads it" % (got[1],),
                       detail={"text": t2, "model": mr})
    res.tag("text_model_tie")
