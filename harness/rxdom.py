"""Regex domain: random ASTs, rendering to the documented text syntax, extraction of the parsed tree."""
import pyformlang.regular_expression.regex_objects as ro

SYMS = ["a", "b", "c", "ab", "abc", "x1"]
ESCAPED = ["*", "|", "+", ".", "(", ")"]


def gen_ast(rng, depth=4, escaped=True):
    if depth == 0 or rng.random() < 0.3:
        r = rng.random()
        if r < 0.1:
            return ["eps"]
        if escaped and r < 0.17:
            return ["sym", rng.choice(ESCAPED)]
        return ["sym", rng.choice(SYMS)]
    k = rng.random()
    if k < 0.4:
        return ["cat", gen_ast(rng, depth - 1, escaped), gen_ast(rng, depth - 1, escaped)]
    if k < 0.75:
        return ["alt", gen_ast(rng, depth - 1, escaped), gen_ast(rng, depth - 1, escaped)]
    return ["star", gen_ast(rng, depth - 1, escaped)]


PREC = {"alt": 0, "cat": 1, "star": 2, "sym": 3, "eps": 3, "empty": 3}


def render(t, rng, ctx=0, redundant=0.15):
    """text whose documented meaning is `t`: * over concatenation (space or .) over union (| or +)"""
    k = t[0]
    if k == "sym":
        s = t[1]
        out = ("\\" + s) if s in ESCAPED else s
    elif k == "eps":
        out = rng.choice(["epsilon", "$"])
    elif k == "cat":
        sep = rng.choice([" ", ".", " . ", "  "])
        # the right operand of a concatenation is rendered at concatenation level + 1 so that the
        # text denotes the same language whatever the association
        out = render(t[1], rng, 1, redundant) + sep + render(t[2], rng, 1, redundant)
    elif k == "alt":
        sep = rng.choice(["|", "+", " | ", " + "])
        out = render(t[1], rng, 0, redundant) + sep + render(t[2], rng, 0, redundant)
    elif k == "star":
        inner = render(t[1], rng, 3, redundant)
        out = inner + rng.choice(["*", " *"])
    else:
        raise ValueError(k)
    if PREC[k] < ctx or (k == "star" and ctx == 3) or rng.random() < redundant:
        out = "(" + out + ")" if rng.random() < 0.7 else "( " + out + " )"
    return out


def tree_of(regex):
    """the parsed tree of a Regex object as nested lists"""
    h = regex.head
    sons = regex.sons or []
    if isinstance(h, ro.Concatenation):
        return ["cat", tree_of(sons[0]), tree_of(sons[1])]
    if isinstance(h, ro.Union):
        return ["alt", tree_of(sons[0]), tree_of(sons[1])]
    if isinstance(h, ro.KleeneStar):
        return ["star", tree_of(sons[0])]
    if isinstance(h, ro.Epsilon):
        return ["eps"]
    if isinstance(h, ro.Empty):
        return ["empty"]
    if isinstance(h, ro.Symbol):
        return ["sym", str(h.value)]
    raise TypeError("unknown head %r" % (h,))


def symbols(t):
    if t[0] == "sym":
        return [t[1]]
    out = []
    for x in t[1:]:
        if isinstance(x, list):
            out += symbols(x)
    return out


# ---- reference reading of the documented grammar (classification of ill-formed text) ------------
def tokens(text):
    """documented tokenisation: blanks separate, operators and parentheses are single characters,
    a backslash makes the next character part of a symbol"""
    out, cur, i = [], "", 0
    while i < len(text):
        c = text[i]
        if c == "\\" and i + 1 < len(text):
            cur += text[i:i + 2]
            i += 2
            continue
        if c == " ":
            if cur:
                out.append(cur)
                cur = ""
        elif c in ".|+*()$":
            if cur:
                out.append(cur)
                cur = ""
            out.append(c)
        else:
            cur += c
        i += 1
    if cur:
        out.append(cur)
    return out


class IllFormed(Exception):
    pass


class Lenient(Exception):
    pass


def ref_parse(toks):
    """AST of the documented grammar; IllFormed for unambiguously ill-formed text (unbalanced or empty
    parentheses, binary operator without left operand, star without operand); Lenient where the
    documentation is silent (binary operator without right operand, empty text)"""
    pos = [0]

    def peek():
        return toks[pos[0]] if pos[0] < len(toks) else None

    def union():
        if peek() in ("|", "+"):
            raise IllFormed("operator without left operand")
        left = concat()
        while peek() in ("|", "+"):
            pos[0] += 1
            if peek() is None or peek() == ")":
                raise Lenient("operator without right operand")
            right = concat()
            left = ["alt", left, right]
        return left

    def concat():
        left = star()
        while True:
            p = peek()
            if p == ".":
                pos[0] += 1
                if peek() is None or peek() in (")", "|", "+"):
                    raise Lenient("operator without right operand")
                left = ["cat", left, star()]
            elif p is not None and p not in (")", "|", "+", "*"):
                left = ["cat", left, star()]
            else:
                return left

    def star():
        a = atom()
        while peek() == "*":
            pos[0] += 1
            a = ["star", a]
        return a

    def atom():
        p = peek()
        if p is None:
            raise IllFormed("operand expected")
        if p == "(":
            pos[0] += 1
            if peek() == ")":
                raise IllFormed("empty parentheses")
            r = union()
            if peek() != ")":
                raise IllFormed("unbalanced parentheses")
            pos[0] += 1
            return r
        if p in (")", "*", ".", "|", "+"):
            raise IllFormed("operand expected at %r" % p)
        pos[0] += 1
        if p in ("epsilon", "$"):
            return ["eps"]
        return ["sym", p[1:] if p.startswith("\\") else p]
    if not toks:
        raise Lenient("empty text")
    r = union()
    if pos[0] != len(toks):
        raise IllFormed("unbalanced parentheses")
    return r
